---------------------------- MODULE OffsetManager ----------------------------
(* Offset manager of a consumer group member (offset_manager.go), modelled as it is:

     Mark / Reset        MarkOffset, ResetOffset: one critical section under pom.lock
     BuildStart          Commit() (ticker or manual) or one final attempt of Close()
     BuildOne(p)         constructRequest: ONE atomic step PER PARTITION (the lock is per
                         partition, so marks can land between two partitions' snapshots)
     BuildEnd            nothing dirty -> no request; else coordinator() (lookup unless cached)
     Coord               the coordinator answers: per-partition result classes, or the
                         connection fails before / after the request was applied
     HandleOne(p)        handleResponse, per partition: ok -> updateCommitted clears dirty
                         ONLY IF the pending position still equals what was committed;
                         redispatch classes drop the cached coordinator; others report
     After               Commit(): releasePOMs(false); Close(): next final attempt or done
     CloseBegin          close(closing), mainLoop has exited, asyncClosePOMs
                         final attempts 0..Retry.Max only when auto-commit is enabled

   The clauses of property C06 are invariants / a ghost flag of this machine; the same
   machine (with hist recording) emits the behaviours that the Go harness replays on the
   real offsetManager (harness/inpkg/offsetmgr_test.go).                                *)
EXTENDS Integers, Sequences, FiniteSets, TLC, Json

CONSTANTS Parts,        \* partition names "topic/partition"
          MaxOff,       \* offsets 0..MaxOff
          Metas,        \* metadata strings
          InitOffs,     \* initially stored positions: 0 = nothing stored, k > 0 = offset k-1 (metadata "i")
          MaxOps,       \* bound on MarkOffset/ResetOffset calls
          MaxCommits,   \* bound on commits before Close
          RetryMaxes,   \* values of Consumer.Offsets.Retry.Max
          Autos,        \* values of Consumer.Offsets.AutoCommit.Enable
          MaxFaults,    \* bound on non-ok partition results + connection failures
          Kinds,        \* per-partition result classes the coordinator may answer
          ConnKinds,    \* connection faults the coordinator may inject instead of answering a commit:
                        \* "before_fin" "before_rst" "after_fin" "after_rst": it read the request, did not / did apply
                        \* it, and closes the connection gracefully (FIN, the client reads EOF) or resets it;
                        \* "pre_fin" "pre_rst": it closed the idle connection before the request (the client finds
                        \* out when it sends; the request is never seen). Same effect on the modelled state as
                        \* "before"; the label steers the harness. {} = no connection faults
          FlightMarks,  \* "any": marks interleave with every step (model checking)
                        \* "window": marks only while idle or while the request is in flight
                        \* "none": marks only while idle (sequential behaviours)
          InitSame,     \* all partitions start with the same stored position (smaller quick model)
          SimSalts,     \* 0: every mark/reset argument is enabled (exhaustive runs); n > 0 (simulation):
                        \* arguments of the k-th call are a pseudo-random function of a salt in 0..n
                        \* chosen initially, so that random walks mix calls, commits and Close evenly
          MaxMoves,     \* how often the group coordinator may MOVE to the other broker while the manager is alive. A move
                        \* happens together with an answer of a class for which the client is supposed to re-resolve the
                        \* coordinator (redispatch classes, default class) or with a connection fault; the old broker keeps
                        \* answering that class to whoever still talks to it. 0: moves are not modelled (harness decides)
          CodeSet,      \* "none" | "quick" | "all": error CODES (not only classes) the coordinator may answer a commit with,
                        \* for the whole response or for one partition; the class of a code is CodeKind (derived from
                        \* handleResponse as it is)
          MaxCoded,     \* bound on coded answers per behaviour
          FixedOps,     \* the application calls are fixed: k-th call marks MaxOff on the k-th partition, then commits/Close
          Emit,         \* record hist and print finished behaviours as JSON
          Bug           \* "none"; "clear_always", "remaining_last_topic", "redispatch_not_released" (non-vacuity self-tests)

VARIABLES pom, store, pc, todo, req, resp, cached, ops, commits, faults,
          closeSt, attempt, auto, retryMax,
          \* ghosts
          marks, touched, lowSince, lowAfterSnap, reqLow, backOk, clearOk, finalsOk, refusedF, init0, hist, salt, loc, moves, staleKind, coded

vars == <<pom, store, pc, todo, req, resp, cached, ops, commits, faults, closeSt, attempt, auto,
          retryMax, marks, touched, lowSince, lowAfterSnap, reqLow, backOk, clearOk, finalsOk, refusedF, init0, hist, salt, loc, moves, staleKind, coded>>

Inf == MaxOff + 10
Pos(o, m) == [off |-> o, meta |-> m]
InitPos(k) == IF k = 0 THEN Pos(-1, "") ELSE Pos(k - 1, "i")
Cur(p) == Pos(pom[p].off, pom[p].meta)
Min(a, b) == IF a < b THEN a ELSE b
Put(f, k, v) == [x \in DOMAIN f \cup {k} |-> IF x = k THEN v ELSE f[x]]

Step(act, p, o, m, conn, ks) ==
  hist' = IF Emit THEN Append(hist, [act |-> act, p |-> p, off |-> o, meta |-> m, conn |-> conn, ks |-> ks]) ELSE hist
NoStep == UNCHANGED hist

Init ==
  /\ store \in [Parts -> {InitPos(o) : o \in InitOffs}]
  /\ InitSame => \A p, q \in Parts : store[p] = store[q]
  /\ salt \in 0..SimSalts
  /\ pom = [p \in Parts |-> [off |-> store[p].off, meta |-> store[p].meta, dirty |-> FALSE, done |-> FALSE]]
  /\ pc = "idle" /\ todo = {} /\ req = <<>> /\ resp = <<>> /\ cached = 1   \* ManagePartition looked it up: broker 1
  /\ loc = 1 /\ moves = 0 /\ staleKind = "redispatch" /\ coded = 0
  /\ ops = 0 /\ commits = 0 /\ faults = 0
  /\ closeSt = "open" /\ attempt = 0
  /\ auto \in Autos /\ retryMax \in RetryMaxes
  /\ marks = [p \in Parts |-> {store[p]}] /\ touched = [p \in Parts |-> FALSE]
  /\ lowSince = [p \in Parts |-> Inf] /\ lowAfterSnap = [p \in Parts |-> Inf] /\ reqLow = [p \in Parts |-> Inf]
  /\ backOk = TRUE /\ clearOk = TRUE /\ finalsOk = TRUE /\ refusedF = [p \in Parts |-> 0]
  /\ init0 = store /\ hist = <<>>

SetSeq(S) == LET RECURSIVE F(_) F(X) == IF X = {} THEN <<>> ELSE LET x == CHOOSE y \in X : TRUE IN <<x>> \o F(X \ {x}) IN F(S)
PartSeq == SetSeq(Parts)
MetaSeq == SetSeq(Metas)
\* simulation only: the arguments of the k-th call
Picked(p, o, m, a, b, c) ==
  \/ SimSalts = 0
  \/ LET np == Len(PartSeq) nm == Len(MetaSeq)
         x == salt * a + ops * b + (salt \div 7) * (ops + 1) + c
     IN /\ p = PartSeq[(x % np) + 1]
        /\ o = (x \div np) % (MaxOff + 1)
        /\ m = MetaSeq[((x \div (np * (MaxOff + 1))) % nm) + 1]

MarksAllowed == \/ FlightMarks = "any"
                \/ pc = "idle"
                \/ FlightMarks = "window" /\ pc = "sent"

\* MarkOffset (offset_manager.go MarkOffset): monotone
Mark(p, o, m) ==
  /\ closeSt = "open" /\ ops < MaxOps /\ MarksAllowed /\ Picked(p, o, m, 31, 17, 0)
  /\ FixedOps => (p = PartSeq[(ops % Len(PartSeq)) + 1] /\ o = MaxOff /\ m = MetaSeq[1])
  /\ ops' = ops + 1
  /\ IF o > pom[p].off
     THEN /\ pom' = [pom EXCEPT ![p].off = o, ![p].meta = m, ![p].dirty = TRUE]
          /\ marks' = [marks EXCEPT ![p] = @ \cup {Pos(o, m)}]
          /\ touched' = [touched EXCEPT ![p] = TRUE]
     ELSE UNCHANGED <<pom, marks, touched>>
  /\ Step("mark", p, o, m, "none", <<>>)
  /\ UNCHANGED <<store, pc, todo, req, resp, cached, commits, faults, closeSt, attempt, auto, retryMax,
                 lowSince, lowAfterSnap, reqLow, backOk, clearOk, finalsOk, refusedF, init0, salt, loc, moves, staleKind, coded>>

\* ResetOffset: downward (or equal) only
Reset(p, o, m) ==
  /\ closeSt = "open" /\ ops < MaxOps /\ MarksAllowed /\ Picked(p, o, m, 13, 29, 5) /\ ~FixedOps
  /\ ops' = ops + 1
  /\ IF o <= pom[p].off
     THEN /\ pom' = [pom EXCEPT ![p].off = o, ![p].meta = m, ![p].dirty = TRUE]
          /\ marks' = [marks EXCEPT ![p] = @ \cup {Pos(o, m)}]
          /\ touched' = [touched EXCEPT ![p] = TRUE]
          /\ lowSince' = [lowSince EXCEPT ![p] = Min(@, o)]
          /\ lowAfterSnap' = [lowAfterSnap EXCEPT ![p] = Min(@, o)]
     ELSE UNCHANGED <<pom, marks, touched, lowSince, lowAfterSnap>>
  /\ Step("resetoff", p, o, m, "none", <<>>)
  /\ UNCHANGED <<store, pc, todo, req, resp, cached, commits, faults, closeSt, attempt, auto, retryMax,
                 reqLow, backOk, clearOk, finalsOk, refusedF, init0, salt, loc, moves, staleKind, coded>>

\* flushToBroker starts: Commit() while open, or one of the final attempts of Close()
BuildStart ==
  /\ pc = "idle"
  /\ \/ /\ closeSt = "open" /\ commits < MaxCommits /\ commits' = commits + 1 /\ UNCHANGED attempt
        /\ Step("commit", "-", 0, "", "none", <<>>)
     \/ /\ closeSt = "final" /\ attempt <= retryMax /\ UNCHANGED commits /\ attempt' = attempt + 1
        /\ NoStep
  /\ pc' = "building" /\ todo' = Parts /\ req' = <<>>
  /\ UNCHANGED <<pom, store, resp, cached, ops, faults, closeSt, auto, retryMax, marks, touched,
                 lowSince, lowAfterSnap, reqLow, backOk, clearOk, finalsOk, refusedF, init0, salt, loc, moves, staleKind, coded>>

\* constructRequest, one partition: snapshot under this partition's lock
BuildOne(p) ==
  /\ pc = "building" /\ p \in todo
  /\ todo' = todo \ {p}
  /\ req' = IF pom[p].dirty THEN Put(req, p, Cur(p)) ELSE req
  /\ reqLow' = [reqLow EXCEPT ![p] = lowSince[p]]
  /\ lowAfterSnap' = [lowAfterSnap EXCEPT ![p] = Inf]
  /\ NoStep
  /\ UNCHANGED <<pom, store, pc, resp, cached, ops, commits, faults, closeSt, attempt, auto, retryMax,
                 marks, touched, lowSince, backOk, clearOk, finalsOk, refusedF, init0, salt, loc, moves, staleKind, coded>>

BuildEnd ==
  /\ pc = "building" /\ todo = {}
  /\ IF DOMAIN req = {} THEN pc' = "after" /\ UNCHANGED cached
                        ELSE pc' = "sent" /\ cached' = (IF cached = 0 THEN loc ELSE cached)   \* coordinator(): lookup unless cached
  /\ NoStep
  /\ UNCHANGED <<pom, store, todo, req, resp, ops, commits, faults, closeSt, attempt, auto, retryMax,
                 marks, touched, lowSince, lowAfterSnap, reqLow, backOk, clearOk, finalsOk, refusedF, init0, salt, loc, moves, staleKind, coded>>

\* effect of the coordinator storing the positions of the partitions in A
StoreApply(A) ==
  /\ store' = [p \in Parts |-> IF p \in A THEN req[p] ELSE store[p]]
  /\ backOk' = (backOk /\ \A p \in A : req[p].off < store[p].off => reqLow[p] <= req[p].off)
  /\ lowSince' = [p \in Parts |-> IF p \in A THEN lowAfterSnap[p] ELSE lowSince[p]]

\* ---- error codes and their classes, as handleResponse treats them
AllCodes == -1..90
QuickCodes == {-1, 3, 5, 6, 12, 14, 15, 16, 22, 25, 27, 28, 90}
Codes == IF CodeSet = "all" THEN AllCodes ELSE IF CodeSet = "quick" THEN QuickCodes ELSE {}
CodeKind(c) == IF c = 0 THEN "ok"
               ELSE IF c \in {5, 6, 15, 16} THEN "redispatch"   \* NotLeader, LeaderNotAvailable, CoordinatorNotAvailable, NotCoordinator
               ELSE IF c \in {12, 28} THEN "report"             \* OffsetMetadataTooLarge, InvalidCommitOffsetSize
               ELSE IF c = 14 THEN "load"                       \* OffsetsLoadInProgress
               ELSE "unknown"                                   \* default branch: tell the user and redispatch
\* classes after which the client drops the cached coordinator and resolves it again
Releasing(k) == (k = "redispatch" /\ Bug # "redispatch_not_released") \/ k = "unknown"
SupposedToReresolve(k) == k \in {"redispatch", "unknown"}
Other(b) == 3 - b
MvLabel(mv) == IF MaxMoves = 0 THEN "-" ELSE IF mv THEN "move" ELSE "stay"

\* the CURRENT coordinator answers the request per partition with classes ks (code: label for the harness, "-2" = any of the class)
Answer(ks, mv, code) ==
  LET nf == Cardinality({p \in DOMAIN req : ks[p] # "ok"}) IN
  /\ faults + nf <= MaxFaults /\ faults' = faults + nf
  /\ mv => (moves < MaxMoves /\ \E p \in DOMAIN req : SupposedToReresolve(ks[p]))
  /\ loc' = IF mv THEN Other(loc) ELSE loc
  /\ moves' = IF mv THEN moves + 1 ELSE moves
  /\ staleKind' = IF mv THEN (CHOOSE k \in {ks[p] : p \in DOMAIN req} : SupposedToReresolve(k)) ELSE staleKind
  /\ StoreApply({p \in DOMAIN req : ks[p] = "ok"})
  /\ resp' = ks /\ pc' = "resp" /\ todo' = DOMAIN req
  /\ finalsOk' = IF closeSt = "final" THEN finalsOk /\ nf = 0 ELSE finalsOk
  /\ refusedF' = [p \in Parts |-> IF closeSt = "final" /\ p \in DOMAIN req /\ ks[p] # "ok" THEN refusedF[p] + 1 ELSE refusedF[p]]
  /\ Step("coord", MvLabel(mv), 0, "", "none", SetSeq({<<p, ks[p], code>> : p \in DOMAIN req}))
  /\ UNCHANGED cached

Coord ==
  /\ pc = "sent"
  /\ IF cached # loc
     THEN \* the client still talks to the OLD broker: it keeps answering the class it answered when the group moved
          \* away; nothing is stored, and this is not a refusal by the coordinator
          /\ resp' = [p \in DOMAIN req |-> staleKind] /\ pc' = "resp" /\ todo' = DOMAIN req
          /\ finalsOk' = IF closeSt = "final" THEN FALSE ELSE finalsOk
          /\ Step("coord", "-", 0, "", "stale", <<>>)
          /\ UNCHANGED <<store, backOk, lowSince, faults, cached, refusedF, loc, moves, staleKind, coded>>
     ELSE
     \/ \E ks \in [DOMAIN req -> Kinds], mv \in BOOLEAN : Answer(ks, mv, "-2") /\ UNCHANGED coded
     \/ \E c \in Codes \ {0}, scope \in {"all"} \cup DOMAIN req, mv \in BOOLEAN :
          /\ coded < MaxCoded /\ coded' = coded + 1
          /\ Answer([p \in DOMAIN req |-> IF scope = "all" \/ p = scope THEN CodeKind(c) ELSE "ok"], mv, ToString(c))
     \/ \E c \in ConnKinds, mv \in BOOLEAN :     \* connection failure: CommitOffset returns an error
          LET applied == c \in {"after_fin", "after_rst"} IN
          \* "pre" faults are steerable only for Commit() and the first final attempt of Close
          /\ (c \in {"pre_fin", "pre_rst"}) => (closeSt = "open" \/ attempt = 1)
          /\ faults < MaxFaults /\ faults' = faults + 1
          /\ mv => moves < MaxMoves
          /\ loc' = IF mv THEN Other(loc) ELSE loc
          /\ moves' = IF mv THEN moves + 1 ELSE moves
          /\ staleKind' = IF mv THEN "redispatch" ELSE staleKind
          /\ StoreApply(IF applied THEN DOMAIN req ELSE {})
          /\ resp' = <<>> /\ pc' = "after" /\ UNCHANGED todo
          /\ cached' = 0                                        \* releaseCoordinator + broker.Close
          /\ finalsOk' = IF closeSt = "final" THEN FALSE ELSE finalsOk
          /\ refusedF' = [p \in Parts |-> IF closeSt = "final" /\ p \in DOMAIN req /\ ~applied THEN refusedF[p] + 1 ELSE refusedF[p]]
          /\ Step("coord", MvLabel(mv), 0, "", c, <<>>)
          /\ UNCHANGED coded
  /\ UNCHANGED <<pom, req, ops, commits, closeSt, attempt, auto, retryMax, marks, touched,
                 lowAfterSnap, reqLow, clearOk, init0, salt>>

\* handleResponse for one partition of the request
HandleOne(p) ==
  /\ pc = "resp" /\ p \in todo
  /\ todo' = todo \ {p}
  /\ IF resp[p] = "ok" /\ (Cur(p) = req[p] \/ Bug = "clear_always")
     THEN /\ pom' = [pom EXCEPT ![p].dirty = FALSE]
          /\ clearOk' = (clearOk /\ Cur(p) = req[p])    \* dirty is cleared only when pending = committed
     ELSE UNCHANGED <<pom, clearOk>>
  /\ cached' = IF Releasing(resp[p]) THEN 0 ELSE cached
  /\ NoStep
  /\ UNCHANGED <<store, pc, req, resp, ops, commits, faults, closeSt, attempt, auto, retryMax, marks, touched,
                 lowSince, lowAfterSnap, reqLow, backOk, finalsOk, refusedF, init0, salt, loc, moves, staleKind, coded>>

HandleEnd ==
  /\ pc = "resp" /\ todo = {}
  /\ pc' = "after"
  /\ NoStep
  /\ UNCHANGED <<pom, store, todo, req, resp, cached, ops, commits, faults, closeSt, attempt, auto, retryMax,
                 marks, touched, lowSince, lowAfterSnap, reqLow, backOk, clearOk, finalsOk, refusedF, init0, salt, loc, moves, staleKind, coded>>

\* after a flush: Commit() -> releasePOMs(false); in the final loop decide whether to go on
After ==
  /\ pc = "after"
  /\ pc' = "idle"
  /\ closeSt' = IF closeSt = "final" /\ ((\A p \in Parts : ~pom[p].dirty) \/ attempt > retryMax
                                       \* self-test variant: releasePOMs reports only the last topic it visited
                                       \* (the bug cfg has one partition per topic)
                                       \/ (Bug = "remaining_last_topic" /\ \E p \in Parts : ~pom[p].dirty))
                THEN "closed" ELSE closeSt
  /\ NoStep
  /\ UNCHANGED <<pom, store, todo, req, resp, cached, ops, commits, faults, attempt, auto, retryMax,
                 marks, touched, lowSince, lowAfterSnap, reqLow, backOk, clearOk, finalsOk, refusedF, init0, salt, loc, moves, staleKind, coded>>

\* Close(): close(closing); wait for mainLoop (no commit running); asyncClosePOMs;
\* final attempts only with auto-commit
CloseBegin ==
  /\ closeSt = "open" /\ pc = "idle"
  /\ (SimSalts > 0 \/ FixedOps) => ops = MaxOps
  /\ closeSt' = IF auto THEN "final" ELSE "closed"
  /\ attempt' = 0 /\ finalsOk' = TRUE /\ refusedF' = [p \in Parts |-> 0]
  /\ pom' = [p \in Parts |-> [pom[p] EXCEPT !.done = TRUE]]
  /\ Step("close", "-", 0, "", "none", <<>>)
  /\ UNCHANGED <<store, pc, todo, req, resp, cached, ops, commits, faults, auto, retryMax, marks, touched,
                 lowSince, lowAfterSnap, reqLow, backOk, clearOk, init0, salt, loc, moves, staleKind, coded>>

Next == \/ \E p \in Parts, o \in 0..MaxOff, m \in Metas : Mark(p, o, m) \/ Reset(p, o, m)
        \/ BuildStart \/ BuildEnd \/ Coord \/ HandleEnd \/ After \/ CloseBegin
        \/ \E p \in Parts : BuildOne(p) \/ HandleOne(p)
Spec == Init /\ [][Next]_vars

-----------------------------------------------------------------------------
(* ---------- the clauses of C06 on the model ---------- *)
TypeOK == /\ pc \in {"idle", "building", "sent", "resp", "after"}
          /\ closeSt \in {"open", "final", "closed"}
          /\ DOMAIN req \subseteq Parts
\* every pair sent to / stored by the coordinator was marked or reset to (or was there initially)
CommittedWasMarked == \A p \in Parts : store[p] \in marks[p]
RequestIsSnapshot == \A p \in DOMAIN req : touched[p] /\ req[p] \in marks[p]
\* commits take the stored offset backwards only if ResetOffset asked for it (ghost, set in StoreApply)
StoreBackwardsOnlyAfterReset == backOk
\* dirty is cleared only when pending = committed (ghost, set in HandleOne)
DirtyClearedOnlyWhenEqual == clearOk
\* what NextOffset returns: the pending position, or the configured initial position
NextOffset(p, initial) == IF pom[p].off >= 0 THEN Cur(p) ELSE Pos(initial, "")
NextOffsetIsPendingOrInitial == \A p \in Parts : NextOffset(p, -1) \in marks[p]
\* no mark is lost: a position that is not stored yet is still flagged for the next commit
\* (so a mark made while a commit was in flight is sent by the next one)
CleanMeansStored == \A p \in Parts : (touched[p] /\ ~pom[p].dirty) => store[p] = Cur(p)
\* Close returned, auto-commit, final attempts accepted => store = latest mark
ClosedAndAccepted == (closeSt = "closed" /\ auto /\ finalsOk) => \A p \in Parts : touched[p] => store[p] = Cur(p)
\* ... and a mark is given up at Close only when the attempts were exhausted FOR THAT PARTITION: Retry.Max + 1
\* final requests carried it and the coordinator refused it (or the connection failed before applying) each time
\* the client never sends a commit to a broker that is no longer the coordinator (it re-resolved when it was told to)
NeverTalksToOldCoordinator == pc = "sent" => cached = loc
ClosedOnlyAfterExhausted == (closeSt = "closed" /\ auto) =>
                               \A p \in Parts : touched[p] => (store[p] = Cur(p) \/ refusedF[p] >= retryMax + 1)
\* MarkOffset never lowers, ResetOffset never raises (action properties)
MarkNeverLowers == [][\A p \in Parts, o \in 0..MaxOff, m \in Metas : Mark(p, o, m) => pom'[p].off >= pom[p].off]_vars
ResetNeverRaises == [][\A p \in Parts, o \in 0..MaxOff, m \in Metas : Reset(p, o, m) => pom'[p].off <= pom[p].off]_vars
\* only MarkOffset/ResetOffset move the pending position; a commit never does
OnlyMarksMovePending == [][(\E p \in Parts : Cur(p)' # Cur(p)) => ops' = ops + 1]_vars

\* role 2: finished behaviours as JSON cases
Emitted ==
  (Emit /\ closeSt = "closed" /\ pc = "idle") =>
     PrintT(<<"CASE", ToJson([mode |-> FlightMarks, auto |-> auto, retry |-> retryMax,
                             init |-> SetSeq({<<p, init0[p].off, init0[p].meta>> : p \in Parts}),
                             steps |-> hist])>>)
=============================================================================
