------------------------------- MODULE Balance -------------------------------
(* Partition-assignment strategies of a consumer group (balance_strategy.go):
   declarative oracle for C08 (validity) and C13 (balance, stickiness), and the
   "rebalance chain" machine whose behaviours are replayed against the real
   range / round-robin / sticky strategies.

   A shape is (mem, sub, np): the member set, each member's subscribed topics and
   the partition count of every topic (0 = the topic does not exist / was deleted).
   A plan is a set of triples <<member, topic, partition>>.                        *)
EXTENDS BalanceOracle, TLC, Json

CONSTANTS Members, Topics, MaxP, MaxOps, EmitCases, InitSmall,
          Kinds,          \* operation kinds allowed in chains
          PartChoices,    \* partition counts allowed in initial shapes (subset of 1..MaxP)
          MinMembers,     \* smallest group size of an initial shape
          AllSubscribeAll \* TRUE: every member subscribes to every topic (identical subscriptions family)

-----------------------------------------------------------------------------
(* ---------- the rebalance-chain machine ---------- *)
VARIABLES mem, sub, np, init0, hist, last

vars == <<mem, sub, np, init0, hist, last>>
NoSub == [m \in Members |-> {}]
Shape == [mem |-> mem, sub |-> sub, np |-> np]

Init ==
  /\ mem \in (SUBSET Members) \ {{}}
  /\ sub \in [Members -> SUBSET Topics]
  /\ \A m \in Members : (m \in mem) <=> (sub[m] # {})
  /\ np \in [Topics -> 0..MaxP]
  /\ \A t \in Topics : np[t] \in PartChoices   \* chains start with all topics existing
  /\ Cardinality(mem) >= MinMembers
  /\ AllSubscribeAll => \A m \in mem : sub[m] = Topics
  /\ InitSmall => Cardinality(mem) = 1    \* simulation cfgs grow the group through Join operations
  /\ init0 = [mem |-> mem, sub |-> sub, np |-> np]
  /\ hist = <<>>
  /\ last = [kind |-> "init", omem |-> {}, osub |-> NoSub, onp |-> np]

Op(kind, m, ts, t, n) == [kind |-> kind, m |-> m, ts |-> ts, t |-> t, n |-> n]
Step(kind, m, ts, t, n) ==
  /\ hist' = Append(hist, Op(kind, m, ts, t, n))
  /\ last' = [kind |-> kind, omem |-> mem, osub |-> sub, onp |-> np]
  /\ UNCHANGED init0

Same == /\ Step("same", "-", {}, "-", 0) /\ UNCHANGED <<mem, sub, np>>
Join(m, ts) ==
  /\ m \notin mem /\ ts # {}
  /\ mem' = mem \cup {m} /\ sub' = [sub EXCEPT ![m] = ts]
  /\ Step("join", m, ts, "-", 0) /\ UNCHANGED np
Leave(m) ==
  /\ m \in mem /\ Cardinality(mem) > 1
  /\ mem' = mem \ {m} /\ sub' = [sub EXCEPT ![m] = {}]
  /\ Step("leave", m, {}, "-", 0) /\ UNCHANGED np
ChangeSub(m, ts) ==
  /\ m \in mem /\ ts # {} /\ ts # sub[m]
  /\ sub' = [sub EXCEPT ![m] = ts]
  /\ Step("sub", m, ts, "-", 0) /\ UNCHANGED <<mem, np>>
SetParts(t, n) ==
  /\ n # np[t]
  /\ np' = [np EXCEPT ![t] = n]
  /\ Step("parts", "-", {}, t, n) /\ UNCHANGED <<mem, sub>>

Next ==
  /\ Len(hist) < MaxOps
  /\ \/ "same" \in Kinds /\ Same
     \/ "join" \in Kinds /\ \E m \in Members, ts \in SUBSET Topics : (AllSubscribeAll => ts = Topics) /\ Join(m, ts)
     \/ "sub" \in Kinds /\ \E m \in Members, ts \in SUBSET Topics : ChangeSub(m, ts)
     \/ "leave" \in Kinds /\ \E m \in Members : Leave(m)
     \/ "parts" \in Kinds /\ \E t \in Topics, n \in 0..MaxP : SetParts(t, n)

Spec == Init /\ [][Next]_vars

OracleSatisfiable == Satisfiable(mem, sub, np)
StickinessSatisfiable ==
  last.kind \in {"same", "join", "leave"} =>
     StickySatisfiable(last.omem, last.osub, last.onp, mem, sub, np, last.kind)

\* role 2: emit every maximal chain as one JSON case
SetSeq(S) == IF S = {} THEN <<>> ELSE LET RECURSIVE F(_) F(X) == IF X = {} THEN <<>> ELSE LET x == CHOOSE y \in X : TRUE IN <<x>> \o F(X \ {x}) IN F(S)
ShapeJson(s) == [mem |-> SetSeq(s.mem),
                 sub |-> SetSeq({<<m, t>> \in Members \X Topics : m \in s.mem /\ t \in s.sub[m]}),
                 np |-> SetSeq({<<t, s.np[t]>> : t \in Topics})]
OpJson(o) == [kind |-> o.kind, m |-> o.m, ts |-> SetSeq(o.ts), t |-> o.t, n |-> o.n]
Emit ==
  (EmitCases /\ Len(hist) = MaxOps) =>
     PrintT(<<"CASE", ToJson([init |-> ShapeJson(init0), ops |-> [i \in 1..Len(hist) |-> OpJson(hist[i])]])>>)
=============================================================================
