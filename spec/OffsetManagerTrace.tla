------------------------- MODULE OffsetManagerTrace -------------------------
(* Role 3 for C06: total observer over what the REAL offsetManager did
   (recorded by harness/inpkg/offsetmgr_test.go). It never blocks; every event whose named
   clause is false adds <<trace, index, clause>> to viol, printed at the end of the file.

   Oracle state kept per partition (from the driver's own calls, in their linearization
   order): pend = the position the application last established through the documented
   semantics (MarkOffset only raises, ResetOffset only lowers or keeps), asked = the set
   of positions it marked or reset to, store = the coordinator's offset store (updated
   from the positions the simulated coordinator applied).

   Events
     reset     mode "seq" | "win" | "tick", auto, retry, initial, parts, init [[p,off,meta]..]
     mark / resetoff   p, off, meta, boff, bmeta (NextOffset before), aoff, ameta (after)
     next      p, off, meta                 NextOffset() read by the driver
     commit_call / commit_ret               manual Commit() (one committer at a time)
     creq      blocks [[p,off,meta]..], applied [[p,off,meta]..], conn, ks [[p,kind,code]..], coordinator, moved
                                            an OffsetCommit request reached the coordinator
     close_call joined / close_ret          offsetManager.Close()
     store     vals [[p,off,meta]..]        the simulated coordinator's store (integrity check)
     cfault    kind, broker, what           the coordinator side closed a connection outside a commit request
     err       p, what, class               an error read from the Errors() channel of p (recorded before the
                                            commit_ret / close_ret of the call that produced it)

   Clauses (the sentences of the property):
     committed_was_marked, store_backwards_only_after_reset, mark_never_lowers,
     reset_never_raises, next_offset_is_pending_or_initial,
     mark_during_flight_is_recommitted, pending_mark_is_sent_by_next_commit,
     closed_and_accepted_implies_store_equals_last_mark,
     close_gives_up_only_after_retry_max_refusals (attempts counted per partition)
   Shutdown family (mode "sd", for C12: closing at any moment completes, nothing panics):
     sd_ret    who, p, hang, panic          an awaited Close / AsyncClose / Commit call returned, or the
                                            quiescence-aware watchdog gave up on it (hang)
     panic     msg, stack                   sarama's PanicHandler caught a panic
     errors_closed  p, closed               the Errors() channel of the POM was drained until closed
     clauses close_hang, close_panic, errors_closed_after_close                          *)
EXTENDS Integers, Sequences, FiniteSets, TLC, Json

Trace == ndJsonDeserialize("trace.ndjson")

VARIABLES l, viol, cfg, pend, asked, touched, store, winLow, accLow, inFlight, flightMark,
          reqs, closing, joined, finalsOk, refused, errs, envErrs, pendingFault, unsteer, st
vars == <<l, viol, cfg, pend, asked, touched, store, winLow, accLow, inFlight, flightMark,
          reqs, closing, joined, finalsOk, refused, errs, envErrs, pendingFault, unsteer, st>>

E == Trace[l]
V(c) == {<<E.t, E.i, c>>}
When(cond, c) == IF cond THEN V(c) ELSE {}
ToSet(s) == {s[k] : k \in DOMAIN s}
Pos(o, m) == [off |-> o, meta |-> m]
Inf == 1000000
Min(a, b) == IF a < b THEN a ELSE b
Parts == DOMAIN pend

\* what NextOffset must return for pending position x
Expected(x) == IF x.off >= 0 THEN x ELSE Pos(cfg.initial, "")

\* pendingFault: dead = brokers whose idle connection to the client the coordinator side has closed and the client has not
\* run into yet (the next flush over it fails: one refusal); at = broker the group coordinator is at
NoPending == [dead |-> {}, at |-> 0]
Hits == pendingFault.at \in pendingFault.dead
NoCfg == [mode |-> "none", auto |-> FALSE, retry |-> 0, initial |-> -1, errors |-> FALSE]
Stat0 == [traces |-> 0, marks |-> 0, effective |-> 0, flight_marks |-> 0, requests |-> 0,
          blocks |-> 0, flight_recommitted |-> 0, backwards_after_reset |-> 0, next_reads |-> 0,
          closes_premise |-> 0, closes |-> 0, faulty_requests |-> 0, closes_retried_partial_refusal |-> 0, closes_exhausted |-> 0,
          closes_unsteered |-> 0, commits_unsteered |-> 0, errors_delivered |-> 0, connection_errors_delivered |-> 0,
          commits_failed_on_closed_connection |-> 0, requests_to_old_coordinator |-> 0, coordinator_moves |-> 0, coordinator_closed_idle_connection |-> 0, unscripted_connection_events |-> 0,
          sd_returns |-> 0, sd_hangs |-> 0, sd_panics |-> 0, sd_errors_channels_closed |-> 0]
Bump(f) == [st EXCEPT ![f] = @ + 1]
BumpBy(s, f, n) == [s EXCEPT ![f] = @ + n]

Init == /\ l = 1 /\ viol = {} /\ cfg = NoCfg
        /\ pend = <<>> /\ asked = <<>> /\ touched = <<>> /\ store = <<>> /\ winLow = <<>> /\ accLow = <<>>
        /\ inFlight = FALSE /\ flightMark = <<>> /\ reqs = 0 /\ closing = FALSE /\ joined = FALSE
        /\ finalsOk = TRUE /\ refused = <<>> /\ errs = <<>> /\ envErrs = <<>> /\ pendingFault = NoPending /\ unsteer = FALSE /\ st = Stat0

TReset ==
  /\ E.ev = "reset"
  /\ LET ini == ToSet(E.init)
         ps == {x[1] : x \in ini}
         I(p) == LET x == CHOOSE y \in ini : y[1] = p IN Pos(x[2], x[3])
     IN /\ cfg' = [mode |-> E.mode, auto |-> E.auto, retry |-> E.retry, initial |-> E.initial, errors |-> E.errors]
        /\ pend' = [p \in ps |-> I(p)]
        /\ store' = [p \in ps |-> I(p)]
        /\ asked' = [p \in ps |-> {}]
        /\ touched' = [p \in ps |-> FALSE]
        /\ winLow' = [p \in ps |-> Inf]
        /\ accLow' = [p \in ps |-> Inf]
        /\ flightMark' = [p \in ps |-> FALSE]
        /\ refused' = [p \in ps |-> 0]
        /\ errs' = [p \in ps |-> 0]
        /\ envErrs' = [p \in ps |-> 0]
        /\ pendingFault' = NoPending /\ unsteer' = FALSE
  /\ inFlight' = FALSE /\ reqs' = 0 /\ closing' = FALSE /\ joined' = FALSE /\ finalsOk' = TRUE
  /\ st' = Bump("traces")
  /\ UNCHANGED viol

\* MarkOffset / ResetOffset called by the application (log order = order of the calls)
TMarkLike(isMark) ==
  LET p == E.p
      known == p \in Parts
      cur == IF known THEN pend[p] ELSE Pos(-1, "")
      eff == IF isMark THEN E.off > cur.off ELSE E.off <= cur.off
      want == IF eff THEN Pos(E.off, E.meta) ELSE cur
      seen == IF E.aoff >= 0 THEN Pos(E.aoff, E.ameta) ELSE Pos(-1, "")
      \* after a call whose observed effect contradicts the documented semantics (flagged below) the
      \* oracle follows what the code reports, so that one defect is reported by its own clause only
      new == IF Pos(E.aoff, E.ameta) # Expected(want) THEN seen ELSE want
      moved == new # cur \/ eff
  IN
  /\ viol' = viol
       \cup When(isMark /\ E.aoff < E.boff, "mark_never_lowers")
       \cup When(~isMark /\ E.aoff > E.boff, "reset_never_raises")
       \cup When(known /\ (Pos(E.boff, E.bmeta) # Expected(cur) \/ Pos(E.aoff, E.ameta) # Expected(want)),
                 "next_offset_is_pending_or_initial")
  /\ IF known /\ moved
     THEN /\ pend' = [pend EXCEPT ![p] = new]
          /\ asked' = [asked EXCEPT ![p] = @ \cup {new}]
          /\ touched' = [touched EXCEPT ![p] = TRUE]
          /\ flightMark' = [flightMark EXCEPT ![p] = inFlight]
          /\ winLow' = IF isMark \/ new.off > cur.off THEN winLow ELSE [winLow EXCEPT ![p] = Min(@, new.off)]
     ELSE UNCHANGED <<pend, asked, touched, flightMark, winLow>>
  /\ st' = BumpBy(BumpBy(BumpBy(st, "marks", 1), "effective", IF eff THEN 1 ELSE 0),
                  "flight_marks", IF eff /\ inFlight THEN 1 ELSE 0)
  /\ UNCHANGED <<cfg, store, accLow, inFlight, reqs, closing, joined, finalsOk, refused, errs, envErrs, pendingFault, unsteer>>

TMark == E.ev = "mark" /\ TMarkLike(TRUE)
TResetOff == E.ev = "resetoff" /\ TMarkLike(FALSE)

TNext ==
  /\ E.ev = "next"
  /\ viol' = viol \cup When(E.p \in Parts /\ Pos(E.off, E.meta) # Expected(pend[E.p]), "next_offset_is_pending_or_initial")
  /\ st' = Bump("next_reads")
  /\ UNCHANGED <<cfg, pend, asked, touched, store, winLow, accLow, inFlight, flightMark, reqs, closing, joined, finalsOk, refused, errs, envErrs, pendingFault, unsteer>>

TCommitCall ==
  /\ E.ev = "commit_call"
  /\ reqs' = 0 /\ inFlight' = FALSE
  /\ errs' = [p \in Parts |-> 0] /\ envErrs' = [p \in Parts |-> 0] /\ unsteer' = FALSE
  /\ UNCHANGED <<viol, cfg, pend, asked, touched, store, winLow, accLow, flightMark, closing, joined, finalsOk, refused, pendingFault, st>>

\* positions that are pending but not stored: the next commit has to carry them
Unsent(blocks) == {p \in Parts : pend[p] # store[p] /\ <<p, pend[p].off, pend[p].meta>> \notin blocks}
UnsentClauses(ps) ==
  UNION {IF flightMark[p] THEN V("mark_during_flight_is_recommitted")
                          ELSE V("pending_mark_is_sent_by_next_commit") : p \in ps}

TCommitRet ==
  /\ E.ev = "commit_ret"
  \* Commit() returned without any request having reached the coordinator although a position is pending.
  \* Excused: the coordinator had closed the idle connection (scripted "pre" fault, cfault event) - that one flush
  \* fails when the client finds out. Unsteered (no verdict): errors are not observable, or the flush failed for a
  \* reason outside client and coordinator (dial / coordinator lookup / timeout errors, or a connection event the
  \* coordinator side did not script). NOT excused: a flush that fails with a connection error (EOF, reset, broken
  \* pipe) although the coordinator side did nothing to the connection since the last fault it was told about -
  \* the client failed locally on a dead connection while the coordinator was reachable: the mark was not sent.
  /\ LET applies == cfg.mode \in {"seq", "win"} /\ reqs = 0 /\ Unsent({}) # {}
         steered == cfg.errors /\ ~unsteer /\ \A p \in Parts : envErrs[p] = 0
     IN /\ viol' = viol \cup (IF applies /\ steered /\ ~Hits THEN UnsentClauses(Unsent({})) ELSE {})
        /\ st' = BumpBy(BumpBy(st, "commits_unsteered", IF applies /\ ~steered THEN 1 ELSE 0),
                        "commits_failed_on_closed_connection", IF applies /\ steered /\ Hits THEN 1 ELSE 0)
  \* the pending fault is consumed by the flush that ran into it
  /\ pendingFault' = IF reqs = 0 /\ (\E p \in Parts : errs[p] > 0)
                     THEN [pendingFault EXCEPT !.dead = @ \ {pendingFault.at}] ELSE pendingFault
  /\ inFlight' = FALSE
  /\ UNCHANGED <<cfg, pend, asked, touched, store, winLow, accLow, flightMark, reqs, closing, joined, finalsOk, refused, errs, envErrs, unsteer>>

\* an OffsetCommit request reached the coordinator; E.applied is what it stored
TCreq ==
  /\ E.ev = "creq"
  /\ LET blocks == ToSet(E.blocks)
         applied == {b \in ToSet(E.applied) : b[1] \in Parts}
         ap == {b[1] : b \in applied}
         A(p) == LET b == CHOOSE x \in applied : x[1] = p IN Pos(b[2], b[3])
         allok == E.conn = "none" /\ \A k \in ToSet(E.ks) : k[2] = "ok"
         back == {p \in ap : A(p).off < store[p].off}
         recommitted == {p \in Parts : flightMark[p] /\ pend[p] # store[p] /\ <<p, pend[p].off, pend[p].meta>> \in blocks}
     IN
     /\ viol' = viol
          \cup When(\E b \in blocks : b[1] \notin Parts \/ Pos(b[2], b[3]) \notin asked[b[1]], "committed_was_marked")
          \cup When(\E p \in back : Min(accLow[p], winLow[p]) > A(p).off, "store_backwards_only_after_reset")
          \cup (IF cfg.mode \in {"seq", "win"} THEN UnsentClauses(Unsent(blocks)) ELSE {})
     /\ store' = [p \in Parts |-> IF p \in ap THEN A(p) ELSE store[p]]
     /\ accLow' = [p \in Parts |-> IF p \in ap THEN winLow[p] ELSE Min(accLow[p], winLow[p])]
     /\ winLow' = [p \in Parts |-> Inf]
     /\ finalsOk' = IF closing THEN finalsOk /\ allok ELSE finalsOk
     \* final attempts that carried p and did not get it stored
     \* ... by the CURRENT coordinator: an answer of a broker the group has moved away from is not a refusal of the
     \* coordinator (the client was told to resolve the coordinator again and has to). A request that arrives at a broker
     \* came over a live connection to it; when the group moves (during Close) to a broker whose idle connection was
     \* closed earlier, the next final attempt runs into that: one more refusal
     /\ LET newAt == IF E.coordinator THEN (IF E.moved THEN 1 - E.broker ELSE E.broker) ELSE pendingFault.at
            dead1 == pendingFault.dead \ {E.broker}
            hitNext == closing /\ E.coordinator /\ E.moved /\ newAt \in dead1
        IN /\ refused' = [p \in Parts |-> refused[p]
                             + (IF closing /\ E.coordinator /\ p \notin ap /\ (\E b \in blocks : b[1] = p) THEN 1 ELSE 0)
                             + (IF hitNext THEN 1 ELSE 0)]
           /\ pendingFault' = [dead |-> IF hitNext THEN dead1 \ {newAt} ELSE dead1, at |-> newAt]
     /\ UNCHANGED <<errs, envErrs, unsteer>>
     /\ flightMark' = [p \in Parts |-> IF p \in recommitted THEN FALSE ELSE flightMark[p]]
     /\ st' = BumpBy(BumpBy(BumpBy(BumpBy(BumpBy(BumpBy(BumpBy(st, "requests", 1), "blocks", Cardinality(blocks)),
                     "flight_recommitted", Cardinality(recommitted)),
                     "backwards_after_reset", Cardinality(back)),
                     "faulty_requests", IF allok THEN 0 ELSE 1),
                     "requests_to_old_coordinator", IF E.coordinator THEN 0 ELSE 1),
                     "coordinator_moves", IF E.moved THEN 1 ELSE 0)
  /\ reqs' = reqs + 1
  /\ inFlight' = (cfg.mode = "win" /\ ~closing)
  /\ UNCHANGED <<cfg, pend, asked, touched, closing, joined>>

TCloseCall ==
  /\ E.ev = "close_call"
  /\ closing' = TRUE /\ joined' = E.joined /\ inFlight' = FALSE /\ reqs' = 0
  \* an idle-connection fault the client has not run into yet costs the first final attempt
  /\ finalsOk' = ~Hits /\ refused' = [p \in Parts |-> IF Hits THEN 1 ELSE 0]
  /\ pendingFault' = [pendingFault EXCEPT !.dead = @ \ {pendingFault.at}] /\ unsteer' = FALSE
  /\ errs' = [p \in Parts |-> 0] /\ envErrs' = [p \in Parts |-> 0]
  /\ UNCHANGED <<viol, cfg, pend, asked, touched, store, winLow, accLow, flightMark, st>>

\* Close returned: auto-commit, markers joined before Close, every final attempt accepted
TCloseRet ==
  /\ E.ev = "close_ret"
  /\ LET premise == cfg.auto /\ joined /\ finalsOk
         lost == {p \in Parts : touched[p] /\ store[p] # pend[p]}
         \* explicit premise of both Close clauses: every final attempt either reached the coordinator (creq) or ran into
         \* a connection fault of the coordinator side (conn field of creq, cfault events) - those count as refusals.
         \* Unsteered (no verdict): errors not observable; a lost partition received an error of the classes dial /
         \* out-of-brokers / timeout / other (an attempt failed outside client and coordinator and consumed
         \* Retry.Max); or the coordinator side saw a connection event it did not script. NOT un-steering: connection
         \* errors (EOF, reset, broken pipe) that no coordinator-side event explains, and Kafka error codes that no
         \* commit response of the coordinator contained (the simulated cluster answers every coordinator lookup of
         \* the group successfully): the coordinator was reachable and unchanged, the client burnt the attempt locally
         \* - on a dead connection, or by refusing to look the coordinator up.
         steered == cfg.errors /\ ~unsteer /\ \A p \in lost : envErrs[p] = 0
         v1 == premise /\ lost # {}
         \* no mark is lost at Close unless the final attempts were really exhausted FOR THAT PARTITION:
         \* Retry.Max + 1 final requests carried it and the coordinator refused it every time
         v2 == cfg.auto /\ joined /\ \E p \in lost : refused[p] < cfg.retry + 1
     IN
     /\ viol' = viol \cup When(v1 /\ steered, "closed_and_accepted_implies_store_equals_last_mark")
                      \cup When(v2 /\ steered, "close_gives_up_only_after_retry_max_refusals")
     /\ st' = BumpBy(BumpBy(BumpBy(BumpBy(BumpBy(st, "closes", 1), "closes_premise", IF premise THEN 1 ELSE 0),
                     "closes_retried_partial_refusal",
                     IF cfg.auto /\ joined /\ ~finalsOk /\ lost = {} THEN 1 ELSE 0),
                     "closes_exhausted",
                     IF cfg.auto /\ joined /\ (\E p \in lost : refused[p] >= cfg.retry + 1) THEN 1 ELSE 0),
                     "closes_unsteered", IF (v1 \/ v2) /\ ~steered THEN 1 ELSE 0)
  /\ UNCHANGED <<cfg, pend, asked, touched, store, winLow, accLow, inFlight, flightMark, reqs, closing, joined, finalsOk, refused, errs, envErrs, pendingFault, unsteer>>

\* an error delivered on the Errors() channel of partition p
TErr ==
  /\ E.ev = "err"
  /\ errs' = [p \in Parts |-> IF p = E.p THEN errs[p] + 1 ELSE errs[p]]
  /\ envErrs' = [p \in Parts |-> IF p = E.p /\ E.class \in {"dial", "lookup", "timeout", "other"} THEN envErrs[p] + 1 ELSE envErrs[p]]
  /\ st' = BumpBy(Bump("errors_delivered"), "connection_errors_delivered", IF E.class \in {"eof", "net"} THEN 1 ELSE 0)
  /\ UNCHANGED <<viol, cfg, pend, asked, touched, store, winLow, accLow, inFlight, flightMark, reqs, closing, joined, finalsOk, refused, pendingFault, unsteer>>

\* the coordinator side closed a connection outside a commit request: "pre_fin" / "pre_rst" = scripted close of the idle
\* connection (the next flush over it fails: one refusal); "unscripted" / "peer_reset" = not scripted: un-steers
TCfault ==
  /\ E.ev = "cfault"
  /\ LET scripted == E.kind \in {"pre_fin", "pre_rst"}
         live == scripted /\ closing /\ E.broker = pendingFault.at    \* the connection the final attempts are using
     IN
     /\ pendingFault' = IF scripted /\ ~live THEN [pendingFault EXCEPT !.dead = @ \cup {E.broker}] ELSE pendingFault
     /\ unsteer' = (unsteer \/ ~scripted)
     /\ refused' = [p \in Parts |-> IF live THEN refused[p] + 1 ELSE refused[p]]
     /\ finalsOk' = IF closing THEN FALSE ELSE finalsOk
     /\ st' = BumpBy(BumpBy(st, "coordinator_closed_idle_connection", IF scripted THEN 1 ELSE 0),
                     "unscripted_connection_events", IF scripted THEN 0 ELSE 1)
  /\ UNCHANGED <<viol, cfg, pend, asked, touched, store, winLow, accLow, inFlight, flightMark, reqs, closing, joined, errs, envErrs>>

\* integrity of the simulated coordinator: its store is what the creq events said it applied
TStore ==
  /\ E.ev = "store"
  /\ viol' = viol \cup When(\E x \in ToSet(E.vals) : x[1] \in Parts /\ store[x[1]] # Pos(x[2], x[3]), "harness_store_mismatch")
  /\ UNCHANGED <<cfg, pend, asked, touched, store, winLow, accLow, inFlight, flightMark, reqs, closing, joined, finalsOk, refused, errs, envErrs, pendingFault, unsteer, st>>

TNote == /\ E.ev \in {"note", "lookup"}
         /\ UNCHANGED <<viol, cfg, pend, asked, touched, store, winLow, accLow, inFlight, flightMark, reqs, closing, joined, finalsOk, refused, errs, envErrs, pendingFault, unsteer, st>>

\* ---- shutdown family: the calls were awaited by a quiescence-aware watchdog
Rest == <<cfg, pend, asked, touched, store, winLow, accLow, inFlight, flightMark, reqs, closing, joined, finalsOk, refused, errs, envErrs, pendingFault, unsteer>>
TSdRet ==
  /\ E.ev = "sd_ret"
  /\ viol' = viol \cup When(E.hang, "close_hang") \cup When(E.panic # "", "close_panic")
  /\ st' = BumpBy(BumpBy(BumpBy(st, "sd_returns", IF E.hang THEN 0 ELSE 1), "sd_hangs", IF E.hang THEN 1 ELSE 0),
                  "sd_panics", IF E.panic # "" THEN 1 ELSE 0)
  /\ UNCHANGED Rest
TPanic ==
  /\ E.ev = "panic"
  /\ viol' = viol \cup V("close_panic")
  /\ st' = Bump("sd_panics")
  /\ UNCHANGED Rest
TErrorsClosed ==
  /\ E.ev = "errors_closed"
  /\ viol' = viol \cup When(~E.closed, "errors_closed_after_close")
  /\ st' = BumpBy(st, "sd_errors_channels_closed", IF E.closed THEN 1 ELSE 0)
  /\ UNCHANGED Rest

TEnd == /\ E.ev = "end"
        /\ PrintT(<<"VIOL", ToJson(viol)>>)
        /\ PrintT(<<"STATS", ToJson(st)>>)
        /\ UNCHANGED <<viol, cfg, pend, asked, touched, store, winLow, accLow, inFlight, flightMark, reqs, closing, joined, finalsOk, refused, errs, envErrs, pendingFault, unsteer, st>>

Next == /\ l <= Len(Trace)
        /\ l' = l + 1
        /\ (TReset \/ TMark \/ TResetOff \/ TNext \/ TCommitCall \/ TCommitRet \/ TCreq
            \/ TCloseCall \/ TCloseRet \/ TStore \/ TNote \/ TErr \/ TCfault \/ TSdRet \/ TPanic \/ TErrorsClosed \/ TEnd)
Spec == Init /\ [][Next]_vars
Accepted == TLCGet("stats").diameter - 1 = Len(Trace)
=============================================================================
