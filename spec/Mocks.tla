-------------------------------- MODULE Mocks --------------------------------
(* The producer mocks of package sarama/mocks (AsyncProducer, SyncProducer) as a state machine:
   an expectation FIFO, one offset counter, per-topic partitioners over the partition counts
   configured through TopicConfig, and the ErrorReporter.

     Expect(kind)   ExpectInput… / ExpectSendMessage… (6 kinds, see MocksOracle)
     Send(m)        a message written to Input() resp. SendMessage(m)
     Batch(n, b)    SyncProducer.SendMessages with n messages (b: the one whose partitioning fails, 0 = none)
     SetParts(t, n) TopicConfig.SetPartitions(map[string]int32{t: n}) on the mock, callable any number of times
                    (topics without an override have the default count: 32 unless SetDefaultPartitions)
     Close          Close()   (CloseOps: "close"), or, async mock only, AsyncClose() followed by draining Successes() /
                    Errors() until both are closed - the completion signal of that shutdown path ("aclose")

   Every action is computed with the step functions of MocksOracle (the same functions the trace
   observer MocksTrace uses on the real code's behaviour); the invariants below restate the
   clauses of property C20 declaratively over the history and are checked by TLC in every reachable
   state, for every interleaving of Expect / Send / Batch / Close within the bounds.
   Quirks = FALSE is the mock the property describes; Quirks = TRUE is the pinned code as it is
   (spec/cfg/Mocks.quirks.cfg: TLC must find the counterexamples).
   Every terminal (closed) state prints its operation sequence as one JSON case (role 2).   *)
EXTENDS MocksOracle, Json

CONSTANTS Modes, PKs, NPA, NPD, RetS, Quirks, Kinds, MaxExp, MaxSend, Interleave,
          MsgTopics, MsgKeys, MsgParts, BatchSizes, SetTopics, SetCounts, MaxSet, FullScript, MsgBad, BatchBad, CloseOps, EmitCases

VARIABLES cf, ps, hist
vars == <<cf, ps, hist>>

NoOuts == <<>>
H(op, kind, m, n, p, took, ekind, outs, rep, parts) ==
  [op |-> op, kind |-> kind, mid |-> m.mid, topic |-> m.topic, key |-> m.key, mpart |-> m.mpart, bad |-> m.bad,
   n |-> n, p |-> p, took |-> took, ekind |-> ekind, outs |-> outs, rep |-> rep, parts |-> parts]
NoMsg == [mid |-> 0, topic |-> "-", key |-> NoKey, mpart |-> 0, bad |-> 0]   \* bad: 0 / 1; batch: position of the bad message

NSent == Count(hist, LAMBDA h : h.op \in {"send", "batch"})
NMsgs == SumSeq([i \in DOMAIN hist |-> IF hist[i].op = "send" THEN 1 ELSE IF hist[i].op = "batch" THEN hist[i].n ELSE 0])

Init ==
  /\ cf \in [mode : Modes, pk : PKs, np : {[ta |-> a, tb |-> d] : a \in NPA, d \in NPD},
             rets : RetS, quirks : {Quirks}]
  /\ cf.mode = "sync" => cf.rets
  /\ ps = PInit0(cf.np.ta)
  /\ hist = <<>>

\* messages a test would submit under the configured partitioner
MsgSpace ==
  {[mid |-> NMsgs + 1, topic |-> t, key |-> k, mpart |-> q, bad |-> b] :
     b \in MsgBad, t \in MsgTopics,
     k \in (IF cf.pk = "hash" THEN MsgKeys ELSE {NoKey}),
     q \in (IF cf.pk = "manual" THEN MsgParts ELSE {0})}
BatchMsg(i, b) == [mid |-> NMsgs + i, topic |-> "ta", key |-> IF cf.pk = "hash" THEN "key2" ELSE NoKey,
                   mpart |-> IF cf.pk = "manual" THEN 1 ELSE 0, bad |-> IF i = b THEN 1 ELSE 0]

Expect(k) ==
  /\ ps.nexp < MaxExp
  /\ Interleave \/ NSent = 0
  /\ ps' = PExpect(ps, k)
  /\ hist' = Append(hist, H("expect", k, NoMsg, 0, -1, 0, "-", NoOuts, <<>>, <<>>))
  /\ UNCHANGED cf

NSet == Count(hist, LAMBDA h : h.op = "setparts")
SetParts(t, n) ==
  /\ NSet < MaxSet
  /\ FullScript => ps.nexp = MaxExp
  /\ ps' = PSetParts(ps, t, n)
  /\ hist' = Append(hist, H("setparts", "-", [NoMsg EXCEPT !.topic = t], n, -1, 0, "-", NoOuts, <<>>, <<>>))
  /\ UNCHANGED cf

Send(m) ==
  /\ NMsgs < MaxSend
  /\ FullScript => ps.nexp = MaxExp
  /\ \E p \in AllowedParts(cf, ps, m) :
       LET r == PSend(cf, ps, m, p) IN
       /\ ps' = r.ps
       /\ hist' = Append(hist, H("send", "-", m, 1, p, r.took, r.ekind, r.outs, r.rep, <<>>))
  /\ UNCHANGED cf

\* b: position of the message whose partitioning fails (0 = none)
Batch(n, b) ==
  /\ cf.mode = "sync"
  /\ NMsgs + n <= MaxSend
  /\ b <= n
  /\ LET ms == [i \in 1..n |-> BatchMsg(i, b)]
         r == PBatch(cf, ps, ms, [i \in 1..n |-> -1]) IN
     /\ ps' = r.ps
     /\ hist' = Append(hist, H("batch", "-", [NoMsg EXCEPT !.bad = b], n, -1, r.took, r.err,
                               [i \in DOMAIN r.offs |-> Out(IF r.offs[i] > 0 THEN "succ" ELSE "err", "-", r.offs[i], r.parts[i])],
                               r.rep, r.parts))
  /\ UNCHANGED cf

Close(how) ==
  /\ how = "aclose" => cf.mode = "async"
  /\ LET r == PClose(ps) IN
     /\ ps' = r.ps
     /\ hist' = Append(hist, H(how, "-", NoMsg, 0, -1, 0, "-", NoOuts, r.rep, <<>>))
  /\ UNCHANGED cf

Next ==
  /\ ~ps.closed
  /\ \/ \E k \in Kinds : Expect(k)
     \/ \E m \in MsgSpace : Send(m)
     \/ \E n \in BatchSizes, b \in BatchBad : Batch(n, b)
     \/ \E t \in SetTopics, n \in SetCounts : SetParts(t, n)
     \/ \E how \in CloseOps : Close(how)
Spec == Init /\ [][Next]_vars

-----------------------------------------------------------------------------
(* ---------- the clauses of C20, declaratively over the history ---------- *)
Idx == DOMAIN hist
ExpIdx == {i \in Idx : hist[i].op = "expect"}
NExpBefore(i) == Cardinality({j \in ExpIdx : j < i})
ConsumedBy(i) == IF hist[i].op = "send" THEN (IF hist[i].took # 0 THEN 1 ELSE 0)
                 ELSE IF hist[i].op = "batch" THEN hist[i].took ELSE 0
ConsumedBefore(i) == SumSeq([j \in 1..(i - 1) |-> ConsumedBy(j)])
KindOfExp(k) == hist[CHOOSE i \in ExpIdx : NExpBefore(i) = k - 1].kind
Sends == {i \in Idx : hist[i].op = "send"}
Batches == {i \in Idx : hist[i].op = "batch"}

\* "the i-th submitted message gets the i-th expectation": a message takes the oldest expectation
\* that no earlier message took, and finds none exactly when all were taken
FifoOrder ==
  /\ \A i \in Sends : hist[i].took = IF NExpBefore(i) > ConsumedBefore(i) THEN ConsumedBefore(i) + 1 ELSE 0
  /\ \A i \in Batches : hist[i].took = IF NExpBefore(i) - ConsumedBefore(i) >= hist[i].n THEN hist[i].n ELSE 0

\* the outcome is the scripted one (or the failing checker's error), with the expectation's own error value
OutcomeOfExpectation ==
  \A i \in Sends : hist[i].took # 0 =>
    LET k == hist[i].took
        kind == KindOfExp(k)
        outs == hist[i].outs IN
    /\ hist[i].ekind = kind
    /\ \A o \in ToSet(outs) :
         IF hist[i].bad = 1 THEN o.kind = "err" /\ o.err = ErrId("p", hist[i].mid)   \* partitioning failed
         ELSE IF CheckerFails(kind) THEN o.kind = "err" /\ o.err = ErrId("c", k)
         ELSE IF Succeeds(kind) THEN o.kind = "succ"
         ELSE o.kind = "err" /\ o.err = ErrId("e", k)

\* every message exactly one outcome (a success is silent only when Return.Successes is off;
\* an async message without expectation has none - it is reported instead)
ExactlyOneOutcome ==
  \A i \in Sends :
    LET silent == cf.mode = "async" /\ (hist[i].took = 0 \/ (~cf.rets /\ hist[i].ekind \in {"S", "CS"} /\ hist[i].bad = 0))
    IN Len(hist[i].outs) = IF silent THEN 0 ELSE 1

UnexpectedInputNeverSucceeds ==
  \A i \in Sends : hist[i].took = 0 => \A o \in ToSet(hist[i].outs) : o.kind = "err" /\ o.err = "noexp"

\* success offsets increase (here: they are 1, 2, 3, … over the delivered and undelivered successes)
SuccOffsets ==
  LET RECURSIVE F(_)
      F(i) == IF i = 0 THEN <<>> ELSE F(i - 1) \o hist[i].outs
      all == F(Len(hist))
  IN SelectSeq([k \in DOMAIN all |-> IF all[k].kind = "succ" THEN all[k].off ELSE 0], LAMBDA x : x > 0)
OffsetsIncreasing ==
  LET s == SuccOffsets IN
  /\ \A a, b \in DOMAIN s : a < b => s[a] < s[b]
  /\ (cf.rets /\ ~cf.quirks) => \A a \in DOMAIN s : s[a] = a

\* partition chosen by the configured partitioner over the partition count configured for the
\* message's topic AT THAT TIME: the latest SetPartitions for the topic, else the count given at
\* creation (topic ta), else the default
ProcParts(t) ==     \* <<key, mpart, chosen partition, history index>> of the processed messages of topic t, in order
  LET RECURSIVE F(_)
      F(i) == IF i = 0 THEN <<>>
              ELSE F(i - 1) \o
                   (IF hist[i].op = "send" /\ hist[i].took # 0 /\ hist[i].bad = 0 /\ hist[i].topic = t
                      THEN <<<<hist[i].key, hist[i].mpart, hist[i].p, i>>>>
                    ELSE IF hist[i].op = "batch" /\ t = "ta"
                      THEN SelectSeq([k \in DOMAIN hist[i].parts |-> <<BatchMsg(1, 0).key, BatchMsg(1, 0).mpart, hist[i].parts[k], i>>],
                                     LAMBDA x : x[3] # NoPart)
                    ELSE <<>>)
  IN F(Len(hist))
CountAt(t, i) ==
  LET S == {j \in 1..(i - 1) : hist[j].op = "setparts" /\ hist[j].topic = t} IN
  IF S # {} THEN hist[CHOOSE j \in S : \A q \in S : q <= j].n
  ELSE IF t = "ta" /\ cf.np.ta > 0 THEN cf.np.ta ELSE cf.np.tb
PartitionChoice ==
  \A t \in Topics :
    LET s == ProcParts(t) IN
    \A j \in DOMAIN s :
      LET n == CountAt(t, s[j][4])
          prev == IF j = 1 THEN -1 ELSE s[j - 1][3] IN
      CASE cf.pk = "manual" -> s[j][3] = s[j][2]
        [] cf.pk = "rr" -> s[j][3] = IF prev + 1 >= n THEN 0 ELSE prev + 1   \* roundRobinPartitioner as it is
        [] cf.pk = "hash" -> IF s[j][1] = NoKey THEN s[j][3] \in 0..(n - 1) ELSE s[j][3] = HashPart(s[j][1], n)
OutcomeCarriesPartition ==
  \A i \in Sends : \A o \in ToSet(hist[i].outs) :
    o.kind = "succ" => o.part = hist[i].p          \* violated by the pinned sync mock (returns 0)

\* a batch stops at the first message whose partitioning fails or whose expectation has a failing
\* checker or a scripted failure
BatchStop(i) ==     \* 0 = runs to the end
  LET c == ConsumedBefore(i)
      bad == {j \in 1..hist[i].n : j = hist[i].bad \/ KindOfExp(c + j) \notin {"S", "CS"}}
  IN IF hist[i].took = 0 \/ bad = {} THEN 0 ELSE CHOOSE j \in bad : \A q \in bad : j <= q
BatchStopsAtPartitioner(i) == BatchStop(i) # 0 /\ BatchStop(i) = hist[i].bad
BatchStopsAtChecker(i) ==
  BatchStop(i) # 0 /\ BatchStop(i) # hist[i].bad /\ CheckerFails(KindOfExp(ConsumedBefore(i) + BatchStop(i)))

\* every deviation is reported, and nothing else is
AllRep ==
  LET RECURSIVE F(_)
      F(i) == IF i = 0 THEN <<>> ELSE F(i - 1) \o hist[i].rep
  IN F(Len(hist))
NTotalExp == Cardinality(ExpIdx)
NConsumed == ConsumedBefore(Len(hist) + 1)
ReporterExact ==
  LET b == BagOf(AllRep)
      cnt(x) == IF x \in DOMAIN b THEN b[x] ELSE 0
  IN
  /\ DOMAIN b \subseteq {"noexp", "insufficient", "checker", "partitioner", "leftover"}
  /\ cnt("partitioner") = Cardinality({i \in Sends : hist[i].took # 0 /\ hist[i].bad = 1})
                          + Cardinality({i \in Batches : BatchStopsAtPartitioner(i)})
  /\ cnt("noexp") = Cardinality({i \in Sends : hist[i].took = 0})
  /\ cnt("insufficient") = Cardinality({i \in Batches : hist[i].took = 0})
  /\ cnt("checker") = Cardinality({i \in Sends : hist[i].took # 0 /\ hist[i].bad = 0 /\ CheckerFails(KindOfExp(hist[i].took))})
                      + Cardinality({i \in Batches : BatchStopsAtChecker(i)})
  /\ cnt("leftover") = IF ps.closed /\ NTotalExp > NConsumed THEN 1 ELSE 0

\* no expectation is lost or duplicated
Conservation ==
  /\ Len(ps.exps) = NTotalExp - NConsumed
  /\ \A k \in DOMAIN ps.exps : ps.exps[k].id = NConsumed + k /\ ps.exps[k].kind = KindOfExp(NConsumed + k)

TypeOK ==
  /\ ps.nexp = NTotalExp
  /\ ps.last \in 0..MaxSend
  /\ ps.closed => hist[Len(hist)].op \in {"close", "aclose"}

-----------------------------------------------------------------------------
\* role 2: every closed state is one case
OpJson(h) == [op |-> h.op, kind |-> h.kind, topic |-> h.topic, key |-> h.key, mpart |-> h.mpart, n |-> h.n, bad |-> h.bad]
Emit ==
  (EmitCases /\ ps.closed) =>
    PrintT(<<"CASE", ToJson([mode |-> cf.mode, pk |-> cf.pk, npa |-> cf.np.ta, npd |-> cf.np.tb, rets |-> cf.rets,
                             ops |-> [i \in DOMAIN hist |-> OpJson(hist[i])]])>>)
=============================================================================
