---------------------------- MODULE PartitionerOps ----------------------------
(* Pure operators shared by the C17 specifications (partitioner.go, the routing rule of
   async_producer.go topicProducer.partitionMessage, client.go WritablePartitions).

   A 32-bit hash is modelled as the int32 the code obtains with int32(hasher.Sum32()):
   an integer in MinInt..MaxInt.  TLC integers are 32-bit Java ints, so every
   operator below is written so that no intermediate value leaves that range
   (2^31 and |MinInt| are never formed).                                             *)
EXTENDS Integers, Sequences, FiniteSets

MaxInt == 2147483647
MinInt == -2147483647 - 1

\* Go's % on int32 truncates toward zero; TLA+'s % (positive divisor) is the floor modulus.
TruncRem(h, n) == LET m == h % n IN IF h >= 0 \/ m = 0 THEN m ELSE m - n

\* NewHashPartitioner / NewCustomHashPartitioner / NewCustomPartitioner() without WithAbsFirst:
\*   partition = int32(sum) % numPartitions; if partition < 0 { partition = -partition }
Legacy(h, n) == LET r == TruncRem(h, n) IN IF r < 0 THEN -r ELSE r

\* NewReferenceHashPartitioner / WithAbsFirst:  (int32(sum) & 0x7fffffff) % numPartitions
\* clearing the sign bit of a negative two's complement number adds 2^31
ToPositive(h) == IF h >= 0 THEN h ELSE (h + MaxInt) + 1
Ref(h, n) == ToPositive(h) % n

(* independent formulations used as lemmas / by the observer *)
\* Kafka's Java client: Utils.toPositive(hash) % numPartitions with toPositive(x) = x & 0x7fffffff,
\* here by bit slicing: the low 16 bits and the low 15 bits of the (arithmetically shifted) high half
JavaToPositive(h) == ((h \div 65536) % 32768) * 65536 + (h % 65536)
JavaPartition(h, n) == JavaToPositive(h) % n
\* |h| mod n computed without forming |MinInt| = 2^31:   2^31 mod n = ((2^31 - 1) mod n + 1) mod n
AbsMod(h, n) == IF h >= 0 THEN h % n
                ELSE IF h = MinInt THEN ((MaxInt % n) + 1) % n
                ELSE (-h) % n

(* ---------- enumerated corner hashes ---------- *)
TopMul(n) == (MaxInt \div n) * n          \* largest multiple of n that is an int32
Around(x) == {y \in {x - 1, x, x + 1} : TRUE}
HFull(n) ==
     {MinInt, MinInt + 1, MaxInt - 1, MaxInt}
     \cup ((-n - 1) .. (n + 1))
     \cup {TopMul(n) - 1, TopMul(n)} \cup (IF TopMul(n) < MaxInt THEN {TopMul(n) + 1} ELSE {})
     \cup {-TopMul(n) - 1, -TopMul(n), -TopMul(n) + 1}
     \cup UNION {Around(k * n) : k \in {2, -2, 4099, -4099, 65537 * 2047, -65537 * 2047}}
HSmall(n) == {MinInt, -1, n + 1, MaxInt}
HSeq(n) == {MinInt, n + 1}
\* the spellings of a key that is not nil but has no bytes: ByteEncoder([]byte{}), StringEncoder(""), ByteEncoder(nil).
\* hashPartitioner.Partition hashes each of them (zero bytes), so each is a key in the sense of the property.
EmptyKinds == {"empty", "empty_s", "empty_n"}

\* FNV-1a (hash/fnv New32a) of a few keys, as int32; checked against the Go standard library on
\* every run (the harness logs the hash it computed itself, the observer uses the logged one).
FnvEmpty == -2128831035
FnvTable == << [name |-> "a",       h |-> -468965076],
               [name |-> "key",     h |-> 1746258028],
               [name |-> "foo",     h |-> -1443660073],
               [name |-> "bar",     h |-> 1991736602],
               [name |-> "user-17", h |-> 1969742969],
               [name |-> "k0",      h |-> -1757577426] >>
\* what the harness's fake hash.Hash32 returns for an empty key (0xffffffff)
FakeEmpty == -1

(* ---------- routing rule (async_producer.go partitionMessage, client.go) ---------- *)
AllParts(np) == 0 .. (np - 1)
WritableParts(np, L) == AllParts(np) \ L            \* partitions whose leader is available
\* the (k+1)-th smallest element of a finite set of integers, k = 0 .. |S|-1  (the client sorts its lists)
Nth(S, k) == CHOOSE x \in S : Cardinality({y \in S : y < x}) = k

\* does the partitioner require consistency for this message?
\* static = RequiresConsistency(); dyn = "none" when the partitioner does not implement
\* DynamicConsistencyPartitioner, else the rule of MessageRequiresConsistency
Requires(static, dyn, keyed) ==
  CASE dyn = "none"   -> static
    [] dyn = "keyed"  -> keyed
    [] dyn = "always" -> TRUE
    [] dyn = "never"  -> FALSE
Offered(np, L, static, dyn, keyed) ==
  IF Requires(static, dyn, keyed) THEN AllParts(np) ELSE WritableParts(np, L)
=============================================================================
