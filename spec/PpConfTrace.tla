---------------------------- MODULE PpConfTrace ----------------------------
(* Soft conformance (implementation-shaped): the partition worker's retry state machine
   (partitionProducer.dispatch / newHighWatermark / flushRetryBuffers in async_producer.go) as
   spec/Producer.tla models it (PpRecv branches newHWM / finLower / buffer / finCurrent+flush /
   forward), validated against the hook events pp.recv (message id, retries, fin flag and the
   worker's highWatermark BEFORE handling) and pp.flush (level being flushed) recorded from the
   real code. A mismatch is reported as DRIFT (the code changed shape); it never decides a
   property by itself - the observer clauses do.

   State per partition: hwm, chaser[level] (expectChaser), buffered[level] (number of parked
   messages), pending flush levels the model expects to see next.                         *)
EXTENDS Naturals, Integers, Sequences, FiniteSets, TLC, Json

Trace == ndJsonDeserialize("trace.ndjson")
VARIABLES l, st, drift, stats
vars == <<l, st, drift, stats>>
E == Trace[l]
Get(f, k, d) == IF k \in DOMAIN f THEN f[k] ELSE d
Put(f, k, v) == [x \in DOMAIN f \cup {k} |-> IF x = k THEN v ELSE f[x]]
Levels == 0..8
P0 == [hwm |-> 0, chaser |-> [x \in Levels |-> FALSE], buffered |-> [x \in Levels |-> 0], flushes |-> <<>>]
D(c) == {<<E.t, E.i, c>>}

Init == l = 1 /\ st = <<>> /\ drift = {} /\ stats = [traces |-> 0, recv |-> 0, flush |-> 0, newhwm |-> 0, parked |-> 0, finlower |-> 0, fincur |-> 0, forward |-> 0]

\* levels flushRetryBuffers walks through, starting below h: h-1, h-2, ... until a level still expects its chaser or 0
RECURSIVE FlushLevels(_, _)
FlushLevels(h, chaser) ==
  IF h = 0 THEN <<>>
  ELSE LET k == h - 1 IN
       IF k = 0 \/ chaser[k] THEN <<k>> ELSE <<k>> \o FlushLevels(k, chaser)

TReset == /\ E.ev = "reset" /\ st' = <<>> /\ stats' = [stats EXCEPT !.traces = @ + 1] /\ UNCHANGED drift

TRecv ==
  /\ E.ev = "pp_recv"
  /\ LET p == Get(st, E.part, P0)
         r == E.retries
         wrongHwm == E.hwm # p.hwm
         q == IF wrongHwm THEN [p EXCEPT !.hwm = E.hwm] ELSE p      \* re-synchronise after a drift
         pendingFlush == q.flushes # <<>>
     IN
     /\ drift' = drift \cup (IF wrongHwm THEN D("hwm_differs_from_model") ELSE {})
                       \cup (IF pendingFlush THEN D("expected_flush_missing") ELSE {})
     /\ IF r > q.hwm
        THEN /\ st' = Put(st, E.part, [q EXCEPT !.hwm = r, !.chaser[r] = TRUE, !.flushes = <<>>])
             /\ stats' = [stats EXCEPT !.recv = @ + 1, !.newhwm = @ + 1]
        ELSE IF q.hwm > 0 /\ r < q.hwm
        THEN IF E.fin
             THEN /\ st' = Put(st, E.part, [q EXCEPT !.chaser[r] = FALSE, !.flushes = <<>>])
                  /\ stats' = [stats EXCEPT !.recv = @ + 1, !.finlower = @ + 1]
             ELSE /\ st' = Put(st, E.part, [q EXCEPT !.buffered[r] = @ + 1, !.flushes = <<>>])
                  /\ stats' = [stats EXCEPT !.recv = @ + 1, !.parked = @ + 1]
        ELSE IF q.hwm > 0 /\ E.fin
        THEN LET ch == [q.chaser EXCEPT ![q.hwm] = FALSE]
                 lv == FlushLevels(q.hwm, ch)
             IN /\ st' = Put(st, E.part, [q EXCEPT !.chaser = ch, !.flushes = lv, !.hwm = lv[Len(lv)],
                                                   !.buffered = [x \in Levels |-> IF \E k \in DOMAIN lv : lv[k] = x THEN 0 ELSE q.buffered[x]]])
                /\ stats' = [stats EXCEPT !.recv = @ + 1, !.fincur = @ + 1]
        ELSE /\ st' = Put(st, E.part, [q EXCEPT !.flushes = <<>>])
             /\ stats' = [stats EXCEPT !.recv = @ + 1, !.forward = @ + 1]

TFlush ==
  /\ E.ev = "pp_flush"
  /\ LET p == Get(st, E.part, P0) IN
     IF p.flushes # <<>> /\ Head(p.flushes) = E.level
     THEN /\ st' = Put(st, E.part, [p EXCEPT !.flushes = Tail(@)]) /\ UNCHANGED drift
     ELSE /\ drift' = drift \cup D("unexpected_flush_level") /\ st' = Put(st, E.part, [p EXCEPT !.flushes = <<>>])
  /\ stats' = [stats EXCEPT !.flush = @ + 1]

TEnd == /\ E.ev = "end" /\ PrintT(<<"DRIFT", ToJson(drift)>>) /\ PrintT(<<"STATS", ToJson(stats)>>) /\ UNCHANGED <<st, drift, stats>>

Next == /\ l <= Len(Trace) /\ l' = l + 1 /\ (TReset \/ TRecv \/ TFlush \/ TEnd)
Spec == Init /\ [][Next]_vars
Accepted == TLCGet("stats").diameter - 1 = Len(Trace)
=============================================================================
