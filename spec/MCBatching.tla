---- MODULE MCBatching ----
(* model-checking instance of Batching (constants in cfg/MCBatching.*.cfg) *)
EXTENDS Batching
====
