---------------------------- MODULE MetadataTrace ----------------------------
(* C15, role 3: total observer over what the REAL sarama client answered
   (harness/inpkg/metadata*_test.go). The reference view is the MetadataView!Fold of the
   metadata responses the mock brokers really served (logged by their handlers); every
   read API result is compared with the view of that fold at the moment of the read.
   Never blocks; accumulates <<trace, index, clause>> in viol.

   step event: k, mut, req, down, modes, result, created, resps (the distinct responses served in this
   step), serves (indexes of the responses served during the refresh / client creation), reads
   (sequence of <<api,t,p,ok,val,err,serves>>), and for the
   concurrent family r0, r1 (sequence stamps around RefreshMetadata) and conc (sequence of
   <<s0, s1, api, t, p, ok, val, err>> reads made by reader goroutines meanwhile).        *)
EXTENDS MetadataView, TLC, Json

Trace == ndJsonDeserialize("trace.ndjson")

VARIABLES l, viol, ref, degraded, fam, ver, nsteps, nreads, nconc, ntraces
vars == <<l, viol, ref, degraded, fam, ver, nsteps, nreads, nconc, ntraces>>

E == Trace[l]
V(c) == {<<E.t, E.i, c>>}
When(cond, c) == IF cond THEN V(c) ELSE {}

SeedEPs == {"s1", "s2"}
Failed(res) == res \in {"oob", "neterr", "closed"}

\* expected answer of one read API on a reference state
Expected(rf, api, t, p) ==
  CASE api = "partitions" -> VPartitions(rf, t)
    [] api = "writable" -> VWritable(rf, t)
    [] api = "leader" -> VLeader(rf, t, p)
    [] api = "replicas" -> VRepl(rf, t, p, 4)
    [] api = "isr" -> VRepl(rf, t, p, 5)
    [] api = "offline" -> VRepl(rf, t, p, 6)
    [] api = "controller" -> VController(rf)
    [] OTHER -> Fail

\* does the answer got = [ok, val, err] agree with the reference rf (deg: some known brokers may
\* have been set aside by a refresh nobody answered)
ReadOk(rf, deg, api, t, p, got) ==
  CASE api = "topics" -> got.ok /\ Range(got.val) = VTopics(rf)
    [] api = "brokers" -> IF deg THEN Range(got.val) \subseteq rf.brokers ELSE Range(got.val) = rf.brokers
    [] api = "controller" -> IF ver = "v0" THEN TRUE ELSE Agrees(got, VController(rf))
    [] OTHER -> Agrees(got, Expected(rf, api, t, p))

ClauseOf(api) ==
  CASE api = "partitions" -> "partitions_sorted_exact"
    [] api = "writable" -> "writable_exact"
    [] api = "leader" -> "leader_exact_or_unavailable"
    [] api \in {"replicas", "isr", "offline"} -> "replicas_isr_offline_exact"
    [] api = "topics" -> "topic_error_class"
    [] OTHER -> "brokers_reconciled"

\* serves are 1-based indexes into the step's table of distinct responses
Resps(ix) == [i \in 1..Len(ix) |-> E.resps[ix[i]]]

\* sequential reads after the step: fold the responses served during each read (refresh on a
\* miss), then compare. Returns [ref, deg, v].
RECURSIVE Reads(_, _, _, _, _)
Reads(rs, k, rf, deg, acc) ==
  IF k > Len(rs) THEN [ref |-> rf, deg |-> deg, v |-> acc]
  ELSE LET r == rs[k]          \* <<api, t, p, ok, val, err, serves>>
           rf2 == FoldAll(rf, Resps(r[7]))
           deg2 == IF r[7] # <<>> THEN FALSE ELSE deg
           good == ReadOk(rf2, deg2, r[1], r[2], r[3], [ok |-> r[4], val |-> r[5], err |-> r[6]])
       IN Reads(rs, k + 1, rf2, deg2, IF good THEN acc ELSE acc \cup V(ClauseOf(r[1])))

\* concurrent reads: before the refresh started -> old view; after it returned -> new view;
\* overlapping -> one of the two, never anything else
ConcBad(rf0, rf1) ==
  \E j \in DOMAIN E.conc :
     LET c == E.conc[j]
         got == [ok |-> c[6], val |-> c[7], err |-> c[8]]
         a0 == ReadOk(rf0, FALSE, c[3], c[4], c[5], got)
         a1 == ReadOk(rf1, FALSE, c[3], c[4], c[5], got)
     IN \/ ~(a0 \/ a1)
        \/ (c[2] < E.r0 /\ ~a0)
        \/ (c[1] > E.r1 /\ ~a1)

\* Concurrent refreshers (family cref): E.results has one result per caller; the candidates a caller
\* can reach are the live seeds and the registered brokers at the start of the round (read from the
\* client by the harness: E.live, E.known); the cluster does not change during the round.
StepClauses(rf1) ==
  LET known == IF degraded THEN {} ELSE {b[2] : b \in ref.brokers}
      cands == IF fam = "cref" /\ E.k > 0 THEN Range(E.live) \cup Range(E.known)
               ELSE SeedEPs \cup (IF E.k = 0 THEN {} ELSE known)
      anyUp == cands \ Range(E.down) # {}
      served == Len(E.serves) > 0
      anyFailed == \E j \in DOMAIN E.results : Failed(E.results[j])
  IN
  When(anyUp /\ (anyFailed \/ ~served \/ ~E.created), "refresh_succeeds_if_any_answers")
  \cup When(served /\ (\E j \in DOMAIN E.results : ~Failed(E.results[j]) /\ ~ReportedOk(E.resps[E.serves[Len(E.serves)]], E.results[j])),
           "topic_error_class")
  \* the application asked for a FULL refresh (no topics named): every answer it was given must be the answer to
  \* "all topics" - the responder reads the raw request: a null topics array (v1+) / an empty one (v0)
  \cup When(E.req = <<>> /\ (\E j \in DOMAIN E.serves : ~E.resps[E.serves[j]].full), "full_refresh_asks_for_all_topics")
  \cup When(fam = "conc" /\ E.k > 0 /\ (Len(E.serves) # 1 \/ ConcBad(ref, rf1)), "read_is_before_or_after")

Init == /\ l = 1 /\ viol = {} /\ ref = RefInit /\ degraded = FALSE /\ fam = "" /\ ver = ""
        /\ nsteps = 0 /\ nreads = 0 /\ nconc = 0 /\ ntraces = 0

TReset == /\ E.ev = "reset"
          /\ ref' = RefInit /\ degraded' = FALSE /\ fam' = E.fam /\ ver' = E.ver
          /\ ntraces' = ntraces + 1
          /\ UNCHANGED <<viol, nsteps, nreads, nconc>>
TStep == /\ E.ev = "step"
         /\ LET rf1 == FoldAll(ref, Resps(E.serves))
                \* candidates that failed are set aside; with several refreshers one of them may set a broker
                \* aside after another one's response has re-registered it
                deg1 == IF Len(E.serves) > 0 /\ ~(fam = "cref" /\ E.k > 0 /\ Len(E.down) > 0) THEN FALSE ELSE TRUE
                rd == Reads(E.reads, 1, rf1, deg1, {})
            IN /\ viol' = viol \cup StepClauses(rf1) \cup rd.v
               /\ ref' = rd.ref /\ degraded' = rd.deg
         /\ nsteps' = nsteps + 1 /\ nreads' = nreads + Len(E.reads) /\ nconc' = nconc + Len(E.conc)
         /\ UNCHANGED <<fam, ver, ntraces>>
TBad == /\ E.ev \in {"hang", "panic"}
        /\ viol' = viol \cup V("no_hang_no_panic")
        /\ UNCHANGED <<ref, degraded, fam, ver, nsteps, nreads, nconc, ntraces>>
TEnd == /\ E.ev = "end"
        /\ PrintT(<<"VIOL", ToJson(viol)>>)
        /\ PrintT(<<"STATS", ToJson([steps |-> nsteps, reads |-> nreads, conc |-> nconc, traces |-> ntraces])>>)
        /\ UNCHANGED <<viol, ref, degraded, fam, ver, nsteps, nreads, nconc, ntraces>>

Next == /\ l <= Len(Trace)
        /\ l' = l + 1
        /\ (TReset \/ TStep \/ TBad \/ TEnd)
Spec == Init /\ [][Next]_vars
Accepted == TLCGet("stats").diameter - 1 = Len(Trace)
=============================================================================
