--------------------------- MODULE ConsumerOracle ---------------------------
(* Declarative oracle of C03 / C11: which records of a partition log are visible to an
   application that starts a partition consumer at offset S under an isolation level.
   A log is a sequence of stored batches [fmt, offs, pid, txn, ctl]: offs = the absolute offsets
   of the batch's records (gaps = compaction holes), txn = transactional, ctl = "" for data
   batches, "commit" / "abort" for a control batch holding one marker of producer pid.      *)
EXTENDS Naturals, Integers, Sequences, FiniteSets

ToSet(s) == {s[k] : k \in DOMAIN s}
IsCtl(b) == b.ctl # ""
\* batch k of log lg belongs to a transaction that is aborted: the next control batch of its producer is an abort marker
Aborted(lg, k) ==
  /\ lg[k].txn /\ ~IsCtl(lg[k])
  /\ \E j \in (k + 1)..Len(lg) :
        /\ IsCtl(lg[j]) /\ lg[j].pid = lg[k].pid /\ lg[j].ctl = "abort"
        /\ \A m \in (k + 1)..(j - 1) : ~(IsCtl(lg[m]) /\ lg[m].pid = lg[k].pid)
\* batch k belongs to a transaction that is still open (no marker of its producer follows)
Open(lg, k) ==
  /\ lg[k].txn /\ ~IsCtl(lg[k])
  /\ ~ \E j \in (k + 1)..Len(lg) : IsCtl(lg[j]) /\ lg[j].pid = lg[k].pid
LogEnd(lg) == IF lg = <<>> THEN 0 ELSE lg[Len(lg)].offs[Len(lg[Len(lg)].offs)] + 1
LSO(lg) == LET opens == {lg[k].offs[1] : k \in {j \in DOMAIN lg : Open(lg, j)}} IN
           IF opens = {} THEN LogEnd(lg) ELSE CHOOSE o \in opens : \A x \in opens : o <= x
VisibleSet(lg, S, iso) ==
  UNION {{o \in ToSet(lg[k].offs) : o >= S /\ (iso = "rc" => o < LSO(lg))} :
         k \in {j \in DOMAIN lg : ~IsCtl(lg[j]) /\ (iso = "rc" => ~Aborted(lg, j))}}
AllData(lg) == UNION {ToSet(lg[k].offs) : k \in {j \in DOMAIN lg : ~IsCtl(lg[j])}}
CtlOffs(lg) == UNION {ToSet(lg[k].offs) : k \in {j \in DOMAIN lg : IsCtl(lg[j])}}
AbortedOffs(lg) == UNION {ToSet(lg[k].offs) : k \in {j \in DOMAIN lg : Aborted(lg, j)}}


\* sanity of the oracle itself (checked by TLC on every enumerated log in ConsumerLog)
OracleSane(lg) ==
  /\ \A S \in 0..LogEnd(lg) :
        /\ VisibleSet(lg, S, "rc") \subseteq VisibleSet(lg, S, "ru")
        /\ VisibleSet(lg, S, "ru") = {o \in AllData(lg) : o >= S}
        /\ VisibleSet(lg, S, "rc") \cap AbortedOffs(lg) = {}
        /\ VisibleSet(lg, S, "ru") \cap CtlOffs(lg) = {}
  /\ LSO(lg) <= LogEnd(lg)
=============================================================================
