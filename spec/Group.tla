------------------------------- MODULE Group -------------------------------
(* C07 model: consumer-group sessions (consumer_group.go) against the group coordinator.

   Coordinator (what a client can observe of Kafka's group state machine): state
   Empty / Preparing / Completing / Stable, generation, known member ids, join barrier over
   the known members, leader election, sync barrier on the leader's assignment, heartbeat
   verdicts (REBALANCE_IN_PROGRESS while not Stable, UNKNOWN_MEMBER_ID after eviction,
   ILLEGAL_GENERATION on a stale generation), offset commits fenced by member id + generation,
   offset store.

   Member (one per client, code -> action map in DESIGN.md A.4): Consume call -> join (error
   classes: member-id reset + immediate retry / backoff retry / fatal) -> sync -> session
   (offset manager per claim, heartbeat loop) -> Setup -> one claim goroutine per partition
   (quick exit when the session is already ending, else ConsumeClaim from the committed or
   initial offset) -> the first claim to return, a heartbeat verdict, context cancellation or
   Close end the session -> wait for the claims -> Cleanup -> final commit -> heartbeat stop ->
   Consume returns. Close: closed flag, then LeaveGroup under the Consume lock.

   Environment nondeterminism = the SCENARIO: scripted coordinator answer per join / sync /
   commit / leave request, handler behaviour per Consume call, one trigger per call (context
   cancel, Close, or a scripted heartbeat verdict) at a steering point. Every choice is
   recorded in `script`; terminal states print it (PrintT CASE) and harness/inpkg/group_test.go
   replays it on the real code.

   Every action emits the API-level events of GroupObs; obs' = ObsFold(obs, events). The
   invariant NoViolation (obs.bad = {}) therefore states that no behaviour of the model
   violates a clause of the property; Bug # "none" selects deliberately broken variants that
   must violate it (non-vacuity).                                                          *)
EXTENDS GroupObs, TLC, Json

CONSTANTS Clients, NP, LogLen, Initials, CommitChoices, Autos, MaxCalls,
          ReqKinds, CommitKinds, LeaveKinds, HbKinds, TrigKinds, FaultBudget, TrigBudget, DataFaults,
          Handlers, RetryMaxes, OffsetRetries, Emit, Bug

VARIABLES cfg, co, cl, fb, tb, script, obs
vars == <<cfg, co, cl, fb, tb, script, obs>>

HbRetry == 1
Parts == 0..(NP - 1)
POrder == <<0, 1, 2>>
COrder == <<"c1", "c2">>
SeqOfParts(S) == SelectSeq(POrder, LAMBDA x : x \in S)
SeqOfClients(S) == SelectSeq(COrder, LAMBDA x : x \in S)
SessionPcs == {"setup", "insetup", "run", "incleanup", "final", "hbstop"}

MidName(c, n) == c \o "-" \o ToString(n)

NoHandler == [mode |-> "drain", n |-> 0, mark |-> 0]

ClientInit ==
  [pc |-> "idle", mid |-> "", wmid |-> "", sid |-> "", sgen |-> -1, claims |-> {},
   cst |-> [p \in Parts |-> "none"], nxt |-> [p \in Parts |-> 0], got |-> [p \in Parts |-> 0],
   mk |-> [p \in Parts |-> -1], dirty |-> {}, ctx |-> FALSE, pcancel |-> FALSE, closed |-> "no",
   calls |-> 0, hb |-> "off", retries |-> 0, trig |-> 0, h |-> NoHandler, ftry |-> 0, ac |-> 0, j1 |-> FALSE,
   nj |-> 0, ns |-> 0,          \* join / sync requests sent in the current Consume call
   cco |-> 0, oco |-> 0,        \* coordinator cached by the client / by the session's offset manager (0 = none: looked up on use)
   persist |-> "", nref |-> 0,  \* every JoinGroup ("join") / SyncGroup ("sync") of the call is refused with REBALANCE_IN_PROGRESS; refusals so far
   df |-> -1]                   \* partition whose claim could not start in this call (data-plane fault)

ResetEvent(c) ==
  [ev |-> "reset", initial |-> c.initial, loglen |-> LogLen, logstart |-> 0, auto |-> c.auto,
   hbretry |-> HbRetry, committed |-> c.committed, rretry |-> c.rretry, oretry |-> c.oretry]

Init ==
  \* rretry = Consumer.Group.Rebalance.Retry.Max, oretry = Consumer.Offsets.Retry.Max (final commit: oretry + 1 attempts)
  /\ cfg \in [initial : Initials, auto : Autos, committed : CommitChoices, rretry : RetryMaxes, oretry : OffsetRetries]
  /\ co = [gs |-> "Empty", gen |-> 0, mem |-> {}, own |-> <<>>, num |-> <<>>, joined |-> {}, leader |-> "",
           asg |-> <<>>, store |-> [p \in Parts |-> cfg.committed[p + 1]], nid |-> 0,
           hi |-> [p \in Parts |-> 0], anySetup |-> FALSE, dfb |-> DataFaults,
           loc |-> 1]                  \* broker that is the group's coordinator (the group state moves along with it)
  /\ cl = [c \in Clients |-> ClientInit]
  /\ fb = FaultBudget
  /\ tb = TrigBudget
  /\ script = [c \in Clients |-> [start |-> "never", pre |-> "none", sess |-> <<>>, lf |-> "ok"]]
  /\ obs = ObsStep(ObsInit, ResetEvent(cfg))

Emitting(evs) == obs' = ObsFold(obs, evs, {})

-----------------------------------------------------------------------------
(* script recording *)
CurIdx(c) == Len(script[c].sess)
AppendSess(c, h) ==
  [script EXCEPT ![c].sess = Append(@, [jf |-> <<>>, sf |-> <<>>, cf |-> <<>>, h |-> h, df |-> -1,
                                          trig |-> [kind |-> "none", at |-> "pre"]])]
RecJ(s, c, k) == IF CurIdx(c) = 0 THEN s ELSE [s EXCEPT ![c].sess[CurIdx(c)].jf = Append(@, k)]
RecS(s, c, k) == IF CurIdx(c) = 0 THEN s ELSE [s EXCEPT ![c].sess[CurIdx(c)].sf = Append(@, k)]
RecC(s, c, k) == IF CurIdx(c) = 0 THEN s ELSE [s EXCEPT ![c].sess[CurIdx(c)].cf = Append(@, k)]
RecTrig(s, c, kind, at) == [s EXCEPT ![c].sess[CurIdx(c)].trig = [kind |-> kind, at |-> at]]

-----------------------------------------------------------------------------
(* coordinator helpers *)
Remove(g, m) ==
  IF m \notin g.mem THEN g
  ELSE LET nm == g.mem \ {m} IN
       [g EXCEPT !.mem = nm, !.joined = @ \ {m},
                 !.gs = IF nm = {} THEN "Empty" ELSE "Preparing"]
RECURSIVE RemoveAll(_, _)
RemoveAll(g, S) == IF S = {} THEN g ELSE LET m == CHOOSE x \in S : TRUE IN RemoveAll(Remove(g, m), S \ {m})
MidsOf(g, c) == {m \in g.mem : g.own[m] = c}

Oldest(g) == CHOOSE m \in g.mem : \A x \in g.mem : g.num[m] <= g.num[x]
\* range-like plan over the members sorted by client name (what the real strategies give for
\* one topic and at most two members; validity of real plans is C08's subject)
Plan(g) ==
  LET ms == SeqOfClients({g.own[m] : m \in g.mem})
      n == Len(ms)
      share(k) == IF n = 1 THEN Parts
                  ELSE LET big == (NP + 1) \div 2 IN
                       IF k = 1 THEN {p \in Parts : p < big} ELSE {p \in Parts : p >= big} IN
  [m \in g.mem |-> LET k == CHOOSE i \in 1..n : ms[i] = g.own[m] IN share(k)]

KErrOfHb(k) == CASE k = "hb_rebalance" -> "rebalance" [] k = "hb_unknown" -> "unknown"
                 [] k = "hb_illegal" -> "illegal" [] k = "hb_notcoord" -> "notcoord" [] OTHER -> "conn"

\* genuine verdict for a request that carries (member id, generation)
Verdict(g, m, gn, kind) ==
  IF m \notin g.mem THEN "unknown"
  ELSE IF gn # g.gen THEN "illegal"
  ELSE IF kind = "hb" /\ g.gs # "Stable" THEN "rebalance"
  ELSE IF kind = "commit" /\ g.gs = "Completing" THEN "rebalance"
  ELSE IF kind = "sync" /\ g.gs = "Preparing" THEN "rebalance"
  ELSE "ok"

-----------------------------------------------------------------------------
(* client-side handling of an error answer to join / sync (newSession's switch) *)
AfterJoinSyncError(x, k) ==
  CASE k \in {"unknown", "illegal"} ->
         \* the member id is reset and the join repeated at once, whatever is left of the retry budget
         IF Bug = "fence_keeps_id_without_budget" /\ x.retries <= 0 THEN [x EXCEPT !.pc = "reterr"]
         ELSE [x EXCEPT !.mid = IF Bug = "keep_member_id" THEN @ ELSE "", !.pc = "join"]
    [] k \in {"notcoord", "rebalance"} ->
         IF x.retries <= 0 \/ x.closed # "no" THEN [x EXCEPT !.pc = "reterr"]
         ELSE [x EXCEPT !.retries = @ - 1, !.pc = "join"]
    [] OTHER -> [x EXCEPT !.pc = "reterr"]

\* the broker a join / sync / heartbeat / leave of the client goes to, and whether it is not the coordinator (any more)
Target(x) == IF x.cco = 0 THEN co.loc ELSE x.cco
Stale(x) == Target(x) # co.loc
\* a NOT_COORDINATOR answer to join / sync: backoff + RefreshCoordinator while the retry budget lasts
AfterNotCoord(x) ==
  IF x.retries <= 0 \/ x.closed # "no" THEN [x EXCEPT !.pc = "reterr", !.cco = Target(x)]
  ELSE [x EXCEPT !.retries = @ - 1, !.pc = "join", !.cco = co.loc]

InRange(o) == o >= 0 /\ o <= LogLen
NextOffset(x, p) == IF x.mk[p] >= 0 THEN x.mk[p] ELSE cfg.initial
StartOffset(x, p) ==
  IF Bug = "claim_at_initial" THEN cfg.initial
  ELSE LET o == NextOffset(x, p) IN IF o < 0 \/ InRange(o) THEN o ELSE cfg.initial
ResolveM(init) == IF init >= 0 THEN init ELSE IF init = -2 THEN 0 ELSE LogLen

\* a session object for client x after a successful sync with assignment A
NewSession(x, A, g) ==
  \* (the new offset manager looks the coordinator up afresh: client.RefreshCoordinator)
  [x EXCEPT !.pc = "setup", !.sid = x.mid, !.claims = A, !.hb = "on", !.ctx = x.pcancel, !.cco = g.loc, !.oco = g.loc,
            !.cst = [p \in Parts |-> "none"], !.mk = [p \in Parts |-> IF p \in A THEN g.store[p] ELSE -1],
            !.dirty = {}, !.got = [p \in Parts |-> 0], !.ftry = 0, !.ac = 0]

-----------------------------------------------------------------------------
(* Consume *)
ConsumeCall(c) ==
  LET x == cl[c] IN
  /\ x.pc = "idle" /\ x.closed # "done" /\ x.calls < MaxCalls[c]
  /\ (x.pcancel \/ x.closed # "no") => x.calls = 0
  /\ IF x.closed # "no"
     THEN /\ cl' = [cl EXCEPT ![c].calls = @ + 1]
          /\ Emitting(<<[ev |-> "consume_call", c |-> c], [ev |-> "consume_ret", c |-> c, err |-> "closed"]>>)
          /\ script' = AppendSess(c, NoHandler)
     ELSE \E h \in Handlers :
          /\ cl' = [cl EXCEPT ![c].calls = @ + 1, ![c].pc = "join", ![c].retries = cfg.rretry,
                              ![c].h = h, ![c].trig = 0, ![c].nj = 0, ![c].ns = 0, ![c].df = -1, ![c].persist = "", ![c].nref = 0,
                              ![c].cco = IF x.cco = 0 THEN co.loc ELSE @]     \* client.Coordinator: cached, else looked up
          /\ Emitting(<<[ev |-> "consume_call", c |-> c]>>)
          /\ script' = AppendSess(c, h)
  /\ UNCHANGED <<cfg, co, fb, tb>>

JoinReqEv(c) == [ev |-> "join_req", c |-> c, mid |-> cl[c].mid]
JoinErrEv(c, k) == [ev |-> "join_resp", c |-> c, err |-> k, mid |-> "", gen |-> -1]

JoinStale(c) ==
  LET x == cl[c] IN
  /\ x.pc = "join" /\ Stale(x)
  /\ cl' = [cl EXCEPT ![c] = [AfterNotCoord(x) EXCEPT !.nj = 1]]
  /\ Emitting(<<[ev |-> "join_req", c |-> c, mid |-> x.mid],
                [ev |-> "join_resp", c |-> c, err |-> "notcoord", mid |-> "", gen |-> -1, stale |-> TRUE]>>)
  /\ UNCHANGED <<cfg, co, fb, tb, script>>

JoinScripted(c) ==
  LET x == cl[c] IN
  /\ x.pc = "join" /\ fb > 0 /\ ~Stale(x) /\ x.persist # "join"
  /\ \E k \in ReqKinds :
       /\ co' = IF k = "unknown" THEN Remove(co, x.mid) ELSE co
       /\ cl' = [cl EXCEPT ![c] = [AfterJoinSyncError(x, k) EXCEPT !.nj = 1]]
       /\ Emitting(<<JoinReqEv(c), JoinErrEv(c, k)>>)
       /\ script' = RecJ(script, c, k)
  /\ fb' = fb - 1
  /\ UNCHANGED <<cfg, tb>>

\* how the harness can place a client's first accepted join relative to the other member: in the very first
\* join round ("pre": the simulated coordinator holds that round for every client started up front), or while the
\* other member runs its first session ("setup": the driver starts the client at the other's first Setup);
\* anything else is explored here but not emitted as a scenario
StartClass(c) ==
  IF co.gen = 0 THEN "pre"
  ELSE IF \E d \in Clients \ {c} : cl[d].calls = 1 /\ cl[d].pc \in {"insetup", "run"} THEN "setup"
  ELSE "other"

JoinGenuine(c) ==
  LET x == cl[c] IN
  /\ x.pc = "join" /\ ~Stale(x) /\ x.persist # "join"
  /\ script' = IF x.j1 \/ (x.mid # "" /\ x.mid \notin co.mem) THEN RecJ(script, c, "ok")
                ELSE [RecJ(script, c, "ok") EXCEPT ![c].start = StartClass(c)]
  /\ IF x.mid # "" /\ x.mid \notin co.mem
     THEN /\ cl' = [cl EXCEPT ![c] = [AfterJoinSyncError(x, "unknown") EXCEPT !.nj = 1]]
          /\ Emitting(<<JoinReqEv(c), JoinErrEv(c, "unknown")>>)
          /\ UNCHANGED co
     ELSE LET fresh == x.mid = ""
              g0 == IF fresh THEN RemoveAll(co, MidsOf(co, c)) ELSE co
              n == g0.nid + 1
              m == IF fresh THEN MidName(c, n) ELSE x.mid
              g1 == IF fresh
                    THEN [g0 EXCEPT !.nid = n, !.mem = @ \cup {m},
                                    !.own = [y \in DOMAIN g0.own \cup {m} |-> IF y = m THEN c ELSE g0.own[y]],
                                    !.num = [y \in DOMAIN g0.num \cup {m} |-> IF y = m THEN n ELSE g0.num[y]]]
                    ELSE g0 IN
          /\ co' = [g1 EXCEPT !.joined = @ \cup {m}, !.gs = "Preparing"]
          /\ cl' = [cl EXCEPT ![c].pc = "joinwait", ![c].wmid = m, ![c].j1 = TRUE, ![c].nj = 1]
          /\ Emitting(<<JoinReqEv(c)>>)
  /\ UNCHANGED <<cfg, fb, tb>>

\* the join barrier: every known member has (re)joined -> next generation
JoinComplete ==
  /\ co.gs = "Preparing" /\ co.mem # {} /\ co.joined = co.mem
  /\ LET ng == co.gen + 1
         ld == IF co.leader \in co.mem THEN co.leader ELSE Oldest(co)
         ws == {c \in Clients : cl[c].pc = "joinwait"} IN
     /\ co' = [co EXCEPT !.gen = ng, !.leader = ld, !.gs = "Completing", !.joined = {},
                         !.asg = [m \in co.mem |-> {}]]
     /\ cl' = [c \in Clients |-> IF c \in ws THEN [cl[c] EXCEPT !.pc = "sync", !.mid = cl[c].wmid, !.sgen = ng] ELSE cl[c]]
     /\ Emitting([i \in 1..Len(SeqOfClients(ws)) |->
                    LET c == SeqOfClients(ws)[i] IN
                    [ev |-> "join_resp", c |-> c, err |-> "ok", mid |-> cl[c].wmid, gen |-> ng]])
  /\ UNCHANGED <<cfg, fb, tb, script>>

SyncReqEv(c) == [ev |-> "sync_req", c |-> c, mid |-> cl[c].mid, gen |-> cl[c].sgen]
SyncErrEv(c, k) == [ev |-> "sync_resp", c |-> c, err |-> k, claims |-> <<>>]
SyncOkEv(c, A) == [ev |-> "sync_resp", c |-> c, err |-> "ok", claims |-> SeqOfParts(A)]

SyncStale(c) ==
  LET x == cl[c] IN
  /\ x.pc = "sync" /\ Stale(x)
  /\ cl' = [cl EXCEPT ![c] = [AfterNotCoord(x) EXCEPT !.ns = 1]]
  /\ Emitting(<<SyncReqEv(c), [ev |-> "sync_resp", c |-> c, err |-> "notcoord", claims |-> <<>>, stale |-> TRUE]>>)
  /\ UNCHANGED <<cfg, co, fb, tb, script>>

SyncScripted(c) ==
  LET x == cl[c] IN
  /\ x.pc = "sync" /\ fb > 0 /\ ~Stale(x) /\ x.persist # "sync"
  /\ \E k \in ReqKinds :
       /\ co' = IF k = "unknown" THEN Remove(co, x.mid) ELSE co
       /\ cl' = [cl EXCEPT ![c] = [AfterJoinSyncError(x, k) EXCEPT !.ns = 1]]
       /\ Emitting(<<SyncReqEv(c), SyncErrEv(c, k)>>)
       /\ script' = RecS(script, c, k)
  /\ fb' = fb - 1
  /\ UNCHANGED <<cfg, tb>>

SyncGenuine(c) ==
  LET x == cl[c]
      v == Verdict(co, x.mid, x.sgen, "sync") IN
  /\ x.pc = "sync" /\ ~Stale(x) /\ x.persist # "sync"
  /\ script' = RecS(script, c, "ok")
  /\ IF v # "ok"
     THEN /\ cl' = [cl EXCEPT ![c] = [AfterJoinSyncError(x, v) EXCEPT !.ns = 1]]
          /\ Emitting(<<SyncReqEv(c), SyncErrEv(c, v)>>)
          /\ UNCHANGED co
     ELSE IF co.gs = "Completing" /\ x.mid # co.leader
     THEN /\ cl' = [cl EXCEPT ![c].pc = "syncwait", ![c].ns = 1]
          /\ Emitting(<<SyncReqEv(c)>>)
          /\ UNCHANGED co
     ELSE \* the leader's sync completes the barrier (or the group is Stable already)
          LET g == IF co.gs = "Completing" THEN [co EXCEPT !.asg = Plan(co), !.gs = "Stable"] ELSE co
              ws == {c} \cup (IF co.gs = "Completing" THEN {d \in Clients : cl[d].pc = "syncwait" /\ cl[d].mid \in g.mem} ELSE {})
              order == <<c>> \o SeqOfClients(ws \ {c}) IN
          /\ co' = g
          /\ cl' = [d \in Clients |-> IF d \in ws THEN NewSession(cl[d], g.asg[cl[d].mid], g) ELSE cl[d]]
          /\ Emitting(<<SyncReqEv(c)>> \o [i \in 1..Len(order) |-> SyncOkEv(order[i], g.asg[cl[order[i]].mid])])
  /\ UNCHANGED <<cfg, fb, tb>>

\* a follower waiting at the sync barrier while the group moved on
SyncAbort(c) ==
  LET x == cl[c]
      v == IF x.mid \notin co.mem THEN "unknown" ELSE IF x.sgen # co.gen THEN "illegal" ELSE "rebalance" IN
  /\ x.pc = "syncwait" /\ co.gs # "Completing"
  /\ cl' = [cl EXCEPT ![c] = AfterJoinSyncError(x, v)]
  /\ Emitting(<<SyncErrEv(c, v)>>)
  /\ UNCHANGED <<cfg, co, fb, tb, script>>

SetupEnter(c) ==
  LET x == cl[c] IN
  /\ x.pc = "setup"
  /\ cl' = [cl EXCEPT ![c].pc = "insetup"]
  /\ co' = [co EXCEPT !.anySetup = TRUE]
  /\ Emitting(IF Bug = "skip_setup" THEN <<>>
              ELSE <<[ev |-> "setup", c |-> c, mid |-> x.sid, gen |-> x.sgen, claims |-> SeqOfParts(x.claims)]>>)
  /\ UNCHANGED <<cfg, fb, tb, script>>

SetupExit(c) ==
  LET x == cl[c] IN
  /\ x.pc = "insetup"
  /\ cl' = [cl EXCEPT ![c].pc = "run", ![c].cst = [p \in Parts |-> IF p \in x.claims THEN "pending" ELSE "none"]]
  /\ UNCHANGED <<cfg, co, fb, tb, script, obs>>

MsgsClosed(x) == x.ctx \/ x.closed # "no"

\* claim goroutine: quick exit when the session is already ending, else ConsumeClaim
ClaimBegin(c, p) ==
  LET x == cl[c] IN
  /\ x.pc = "run" /\ x.cst[p] = "pending"
  /\ IF MsgsClosed(x)
     THEN /\ cl' = [cl EXCEPT ![c].cst[p] = "skip", ![c].ctx = TRUE]
          /\ UNCHANGED obs
     ELSE LET init == StartOffset(x, p) IN
          /\ cl' = [cl EXCEPT ![c].cst[p] = "run", ![c].nxt[p] = ResolveM(init), ![c].got[p] = 0]
          /\ Emitting(<<[ev |-> "claim_start", c |-> c, p |-> p, init |-> init]>>)
  /\ UNCHANGED <<cfg, co, fb, tb, script>>

\* data-plane fault: ListOffsets for the partition fails, ConsumePartition returns an error, the claim goroutine
\* reports it and exits (no ConsumeClaim) - its deferred sess.cancel() ends the session
ClaimFail(c, p) ==
  LET x == cl[c] IN
  /\ x.pc = "run" /\ x.cst[p] = "pending" /\ ~MsgsClosed(x) /\ co.dfb > 0 /\ x.df = -1
  /\ cl' = [cl EXCEPT ![c].cst[p] = "skip", ![c].df = p,
                      ![c].ctx = IF Bug = "claim_fail_no_cancel" THEN @ ELSE TRUE]
  /\ co' = [co EXCEPT !.dfb = @ - 1]
  /\ Emitting(<<[ev |-> "claim_fail", c |-> c, p |-> p]>>)
  /\ script' = [script EXCEPT ![c].sess[CurIdx(c)].df = p]
  /\ UNCHANGED <<cfg, fb, tb>>

AtPoint(x, p) == x.got[p] >= x.h.n \/ x.nxt[p] >= LogLen

Deliver(c, p) ==
  LET x == cl[c]
      o == x.nxt[p]
      marks == x.got[p] < x.h.mark
      \* MarkOffset only raises the partition offset manager's offset (which starts at the FETCHED committed
      \* offset, even when that one is out of range and the claim fell back to the initial position)
      eff == marks /\ o + 1 > x.mk[p] IN
  /\ x.pc = "run" /\ x.cst[p] = "run" /\ o < LogLen /\ ~MsgsClosed(x)
  /\ x.h.mode = "drain" \/ ~AtPoint(x, p)
  /\ cl' = [cl EXCEPT ![c].nxt[p] = o + 1, ![c].got[p] = @ + 1,
                      ![c].mk[p] = IF eff THEN o + 1 ELSE @,
                      ![c].dirty = IF eff THEN @ \cup {p} ELSE @]
  /\ co' = [co EXCEPT !.hi[p] = IF o + 1 > @ THEN o + 1 ELSE @]
  /\ Emitting(<<[ev |-> "msg", c |-> c, p |-> p, off |-> o]>>
              \o (IF marks THEN <<[ev |-> "mark", c |-> c, p |-> p, off |-> o + 1]>> ELSE <<>>))
  /\ UNCHANGED <<cfg, fb, tb, script>>

ClaimReturn(c, p) ==
  LET x == cl[c] IN
  /\ x.pc = "run" /\ x.cst[p] = "run"
  /\ CASE x.h.mode = "early" -> AtPoint(x, p) \/ MsgsClosed(x)
       [] x.h.mode = "ctxwait" -> (AtPoint(x, p) /\ x.ctx) \/ (~AtPoint(x, p) /\ MsgsClosed(x))
       [] OTHER -> MsgsClosed(x)
  /\ cl' = [cl EXCEPT ![c].cst[p] = "ret", ![c].ctx = TRUE]
  /\ Emitting(<<[ev |-> "claim_ret", c |-> c, p |-> p]>>)
  /\ UNCHANGED <<cfg, co, fb, tb, script>>

\* loopCheckPartitionNumbers notices the closed group
Watcher(c) ==
  /\ cl[c].pc = "run" /\ cl[c].closed # "no" /\ ~cl[c].ctx
  /\ cl' = [cl EXCEPT ![c].ctx = TRUE]
  /\ UNCHANGED <<cfg, co, fb, tb, script, obs>>

\* <-sess.ctx.Done(); release: wait for the claim goroutines, then Cleanup
Release(c) ==
  LET x == cl[c] IN
  /\ x.pc = "run" /\ x.ctx
  /\ Bug = "cleanup_early" \/ \A p \in x.claims : x.cst[p] \in {"ret", "skip"}
  /\ cl' = [cl EXCEPT ![c].pc = "incleanup", ![c].hb = IF Bug = "hb_stops_before_cleanup" THEN "off" ELSE @]
  /\ Emitting(IF Bug = "skip_cleanup" THEN <<>> ELSE <<[ev |-> "cleanup", c |-> c]>>)
  /\ UNCHANGED <<cfg, co, fb, tb, script>>

\* (a long Cleanup that waits for the member's heartbeats sees them exactly while the heartbeat loop is still running:
\* release stops the loop only after Cleanup and the final commit)
CleanupExit(c) ==
  /\ cl[c].pc = "incleanup"
  /\ cl' = [cl EXCEPT ![c].pc = "final"]
  /\ Emitting(<<[ev |-> "cleanup_wait", c |-> c, hbs |-> IF cl[c].hb = "on" THEN 3 ELSE 0, expired |-> cl[c].hb # "on"]>>)
  /\ UNCHANGED <<cfg, co, fb, tb, script>>

\* an OffsetCommit request of the session's offset manager carrying every dirty partition
CommitReq(c, k, final) ==
  LET x == cl[c]
      gen == IF Bug = "stale_commit_identity" THEN x.sgen - 1 ELSE x.sgen
      \* the offset manager's cached coordinator (looked up afresh after it was released)
      tgt == IF x.oco = 0 THEN co.loc ELSE x.oco
      stale == tgt # co.loc
      v == IF stale THEN "notcoord" ELSE IF k = "ok" THEN Verdict(co, x.sid, x.sgen, "commit") ELSE k
      ok == v = "ok"
      blocks == [i \in 1..Len(SeqOfParts(x.dirty)) |-> <<SeqOfParts(x.dirty)[i], x.mk[SeqOfParts(x.dirty)[i]]>>]
      g0 == IF k = "unknown" /\ ~stale THEN Remove(co, x.sid) ELSE co IN
  /\ stale => k = "ok"
  /\ co' = IF ok THEN [g0 EXCEPT !.store = [p \in Parts |-> IF p \in x.dirty THEN x.mk[p] ELSE @[p]]] ELSE g0
  /\ cl' = [cl EXCEPT ![c].dirty = IF ok THEN {} ELSE @,
                      \* handleResponse: NOT_COORDINATOR releases the cached coordinator (the next attempt looks it up)
                      ![c].oco = IF v = "notcoord" /\ Bug # "commit_keeps_stale_coordinator" THEN 0 ELSE tgt,
                      ![c].cco = IF x.oco = 0 THEN co.loc ELSE @,
                      ![c].pc = IF ~final THEN @ ELSE IF ok \/ x.ftry >= cfg.oretry THEN "hbstop" ELSE "final",
                      ![c].ftry = IF final THEN @ + 1 ELSE @, ![c].ac = IF final THEN @ ELSE @ + 1]
  /\ Emitting(<<[ev |-> "commit", c |-> c, mid |-> x.sid, gen |-> gen, err |-> v, blocks |-> blocks, applied |-> ok, stale |-> stale]>>)
  /\ script' = RecC(script, c, k)

AutoCommit(c) ==
  LET x == cl[c] IN
  /\ cfg.auto = "fast" /\ x.pc = "run" /\ x.dirty # {} /\ x.ac < 2
  /\ \E k \in {"ok"} \cup (IF fb > 0 THEN CommitKinds ELSE {}) :
       /\ CommitReq(c, k, FALSE)
       /\ fb' = IF k = "ok" THEN fb ELSE fb - 1
  /\ UNCHANGED <<cfg, tb>>

\* offsets.Close(): final flush, up to 1 + Consumer.Offsets.Retry.Max attempts while something is dirty
FinalCommit(c) ==
  LET x == cl[c] IN
  /\ x.pc = "final"
  /\ IF x.dirty = {} \/ Bug = "no_final_commit" \/ (Bug = "final_commit_one_short" /\ x.ftry >= cfg.oretry)
     THEN /\ cl' = [cl EXCEPT ![c].pc = "hbstop"]
          /\ UNCHANGED <<co, fb, script, obs>>
     ELSE \E k \in {"ok"} \cup (IF fb > 0 THEN CommitKinds ELSE {}) :
          /\ CommitReq(c, k, TRUE)
          /\ fb' = IF k = "ok" THEN fb ELSE fb - 1
  /\ UNCHANGED <<cfg, tb>>

HbStop(c) ==
  /\ cl[c].pc = "hbstop"
  /\ cl' = [cl EXCEPT ![c].pc = "idle", ![c].hb = "off"]
  /\ Emitting(<<[ev |-> "consume_ret", c |-> c, err |-> ""]>>)
  /\ UNCHANGED <<cfg, co, fb, tb, script>>

RetErr(c) ==
  /\ cl[c].pc = "reterr"
  /\ cl' = [cl EXCEPT ![c].pc = "idle"]
  /\ Emitting(<<[ev |-> "consume_ret", c |-> c, err |-> "err"]>>)
  /\ UNCHANGED <<cfg, co, fb, tb, script>>

-----------------------------------------------------------------------------
(* heartbeats: only verdicts change state; an OK heartbeat is a stuttering step *)
HbEv(c, err) ==
  [ev |-> "hb", c |-> c, mid |-> cl[c].sid,
   gen |-> IF Bug = "stale_hb_identity" THEN cl[c].sgen - 1 ELSE cl[c].sgen, err |-> err, stale |-> FALSE]

HbGenuine(c) ==
  LET x == cl[c]
      v == IF Stale(x) THEN "notcoord" ELSE Verdict(co, x.sid, x.sgen, "hb") IN
  /\ x.hb = "on" /\ x.pc \in SessionPcs /\ v # "ok"
  /\ cl' = [cl EXCEPT ![c].hb = "dead", ![c].ctx = TRUE]
  /\ Emitting(<<[HbEv(c, v) EXCEPT !.stale = Stale(x)]>>)
  /\ UNCHANGED <<cfg, co, fb, tb, script>>

-----------------------------------------------------------------------------
(* one scripted trigger per Consume call at a steering point *)
TrigPoint(c) ==
  LET x == cl[c] IN
  CASE x.pc = "idle" /\ x.calls = 0 -> "pre"
    [] x.pc = "join" /\ x.nj = 0 -> "join"
    [] x.pc = "join" /\ x.nj = 1 /\ x.mid = "" -> "rejoin"     \* the rejoin with a fresh identity after a fence
    [] x.pc = "sync" /\ x.ns = 0 -> "sync"
    [] x.pc = "setup" -> "sync"        \* armed at sync: the first heartbeat may beat Setup
    [] x.pc = "insetup" -> "setup"
    [] x.pc = "run" /\ (x.claims = {} \/ \E p \in x.claims : x.cst[p] = "run" /\ AtPoint(x, p)) -> "claim"
    [] x.pc = "incleanup" -> "cleanup"
    [] OTHER -> "none"

CanTrig(c) == tb > 0 /\ cl[c].trig = 0 /\ TrigPoint(c) # "none"

TrigCancel(c) ==
  LET x == cl[c]
      at == TrigPoint(c) IN
  /\ "cancel" \in TrigKinds /\ CanTrig(c) /\ ~x.pcancel /\ x.closed = "no"
  /\ ~(x.pc = "setup")
  /\ cl' = [cl EXCEPT ![c].pcancel = TRUE, ![c].trig = 1, ![c].ctx = IF x.pc \in SessionPcs THEN TRUE ELSE @]
  /\ Emitting(<<[ev |-> "cancel", c |-> c]>>)
  /\ script' = IF at = "pre" THEN [script EXCEPT ![c].pre = "cancel"] ELSE RecTrig(script, c, "cancel", at)
  /\ tb' = tb - 1
  /\ UNCHANGED <<cfg, co, fb>>

TrigClose(c) ==
  LET x == cl[c]
      at == TrigPoint(c) IN
  /\ "close" \in TrigKinds /\ CanTrig(c) /\ x.closed = "no" /\ ~x.pcancel
  /\ ~(x.pc = "setup")
  /\ cl' = [cl EXCEPT ![c].closed = "closing", ![c].trig = 1]
  /\ Emitting(<<[ev |-> "close_call", c |-> c]>>)
  /\ script' = IF at = "pre" THEN [script EXCEPT ![c].pre = "close"] ELSE RecTrig(script, c, "close", at)
  /\ tb' = tb - 1
  /\ UNCHANGED <<cfg, co, fb>>

TrigHb(c) ==
  LET x == cl[c]
      at == TrigPoint(c) IN
  /\ CanTrig(c) /\ x.hb = "on" /\ x.pc \in {"setup", "insetup", "run"} /\ ~x.ctx
  /\ Verdict(co, x.sid, x.sgen, "hb") = "ok" /\ ~Stale(x)
  /\ \E k \in HbKinds :
       LET err == KErrOfHb(k) IN
       /\ co' = CASE k = "hb_rebalance" -> [co EXCEPT !.gs = "Preparing"]
                  [] k = "hb_unknown" -> Remove(co, x.sid)
                  [] OTHER -> co
       \* connection loss: the loop has HbRetry + 1 attempts. The coordinator drops every one it SEES, but after the first
       \* loss the remaining attempts can die locally on the torn-down connection (heartbeatLoop closes and reopens the
       \* coordinator's Broker while the session set-up and the offset manager use the same Broker): 1..HbRetry+1 are seen
       /\ \E n \in (IF err = "conn" THEN 1..(HbRetry + 1) ELSE {1}) :
            Emitting(IF err = "conn" THEN [i \in 1..n |-> HbEv(c, "conn")] ELSE <<HbEv(c, err)>>)
       /\ script' = RecTrig(script, c, k, at)
  /\ cl' = [cl EXCEPT ![c].hb = "dead", ![c].ctx = TRUE, ![c].trig = 1]
  /\ tb' = tb - 1
  /\ UNCHANGED <<cfg, fb>>

\* session set-up fails. (a) the initial OffsetFetch of the session's offset manager fails for good (ManagePartition error):
\* release(false) - no Setup, no Cleanup, heartbeat loop (already running) stopped - and Consume returns the error;
\* (b) the handler's Setup returns an error: release(true) - Cleanup runs - and Consume returns the error. No claim starts.
SetupFailKinds == {"ofetch_fail", "ofetch_fail_conn", "ofetch_fail_close", "ofetch_fail_load", "ofetch_fail_load_close",
                   "setup_error", "setup_error_close"}
SetupFail(c, kind) ==
  LET x == cl[c]
      inHandler == kind \in {"setup_error", "setup_error_close"}
      closes == kind \in {"ofetch_fail_close", "ofetch_fail_load_close", "setup_error_close"} IN
  /\ kind \in TrigKinds /\ CanTrig(c) /\ x.claims # {} /\ x.closed = "no"
  /\ x.pc = IF inHandler THEN "insetup" ELSE "setup"
  /\ cl' = [cl EXCEPT ![c].pc = IF Bug = "setup_fail_blocks_release" THEN "stuck" ELSE "reterr",
                      ![c].hb = "off", ![c].ctx = TRUE, ![c].trig = 1,
                      ![c].closed = IF closes THEN "closing" ELSE @]
  /\ Emitting((IF inHandler THEN <<[ev |-> "setup_fail", c |-> c]>> ELSE <<>>)
              \o (IF closes THEN <<[ev |-> "close_call", c |-> c]>> ELSE <<>>)
              \o (IF inHandler /\ Bug # "setup_fail_blocks_release" THEN <<[ev |-> "cleanup", c |-> c]>> ELSE <<>>))
  /\ script' = RecTrig(script, c, kind, IF inHandler THEN "setup" ELSE "sync")
  /\ tb' = tb - 1
  /\ UNCHANGED <<cfg, co, fb>>

\* a rebalance that does not settle: every JoinGroup (or every SyncGroup) of this Consume call is answered
\* REBALANCE_IN_PROGRESS. The code backs off and retries while the budget lasts, then Consume returns the error.
PersistArm(c, what) ==
  LET x == cl[c]
      kind == IF what = "sync" THEN "sync_rebalance_forever" ELSE "join_rebalance_forever" IN
  /\ kind \in TrigKinds /\ CanTrig(c) /\ x.pc = "join" /\ x.nj = 0 /\ ~Stale(x)
  /\ cl' = [cl EXCEPT ![c].persist = what, ![c].trig = 1]
  /\ script' = RecTrig(script, c, kind, "join")
  /\ tb' = tb - 1
  /\ UNCHANGED <<cfg, co, fb, obs>>

PersistRefuse(c) ==
  LET x == cl[c]
      isJoin == x.persist = "join"
      n == x.nref + 1
      after == IF Bug = "sync_rebalance_rejoins_at_once" /\ ~isJoin THEN [x EXCEPT !.pc = "join"]
               ELSE AfterJoinSyncError(x, "rebalance") IN
  /\ x.pc = (IF isJoin THEN "join" ELSE "sync") /\ x.persist # "" /\ x.persist = (IF isJoin THEN "join" ELSE "sync")
  /\ cl' = [cl EXCEPT ![c] = [after EXCEPT !.nref = n, !.nj = 1, !.ns = IF isJoin THEN @ ELSE 1]]
  /\ Emitting(IF isJoin
              THEN <<JoinReqEv(c), [ev |-> "join_resp", c |-> c, err |-> "rebalance", mid |-> "", gen |-> -1, n |-> n, max |-> cfg.rretry + 1]>>
              ELSE <<SyncReqEv(c), [ev |-> "sync_resp", c |-> c, err |-> "rebalance", claims |-> <<>>, n |-> n, max |-> cfg.rretry + 1]>>)
  /\ UNCHANGED <<cfg, co, fb, tb, script>>

\* the coordinator cannot be found (from the start of the call, or - "late" - once the scripted NOT_COORDINATOR answer to the
\* first JoinGroup sent the client looking): retryNewSession keeps looking it up, backing off in a select on the closed
\* channel; the application closes the group meanwhile: Consume returns ErrClosedConsumerGroup and Close completes
NoCoordClose(c, late) ==
  LET x == cl[c]
      kind == IF late THEN "nocoord_late_close" ELSE "nocoord_close" IN
  /\ kind \in TrigKinds /\ CanTrig(c) /\ x.pc = "join" /\ x.nj = 0 /\ x.closed = "no" /\ cfg.rretry >= 1
  /\ ~late => x.calls = 1      \* (later calls find the coordinator in the client's cache)
  /\ cl' = [cl EXCEPT ![c].pc = IF Bug = "lookup_loop_ignores_close" THEN "stuck" ELSE "reterr",
                      ![c].closed = "closing", ![c].trig = 1, ![c].nj = 1]
  /\ Emitting((IF late THEN <<[ev |-> "join_req", c |-> c, mid |-> x.mid],
                              [ev |-> "join_resp", c |-> c, err |-> "notcoord", mid |-> "", gen |-> -1]>> ELSE <<>>)
              \o <<[ev |-> "close_call", c |-> c]>>)
  /\ script' = IF late THEN RecJ(RecTrig(script, c, kind, "join"), c, "notcoord") ELSE RecTrig(script, c, kind, "join")
  /\ tb' = tb - 1
  /\ UNCHANGED <<cfg, co, fb>>

\* environment: the group's coordinator migrates to the other broker while a session runs (optionally followed at once by
\* an application cancel); FindCoordinator answers the new broker from now on, the old one answers NOT_COORDINATOR
TrigMove(c, withCancel) ==
  LET x == cl[c]
      at == TrigPoint(c)
      kind == IF withCancel THEN "coord_move_cancel" ELSE "coord_move" IN
  /\ kind \in TrigKinds /\ CanTrig(c) /\ x.pc \in {"insetup", "run"} /\ ~x.ctx /\ ~x.pcancel /\ x.closed = "no"
  /\ co' = [co EXCEPT !.loc = 3 - @]
  /\ cl' = [cl EXCEPT ![c].trig = 1, ![c].pcancel = IF withCancel THEN TRUE ELSE @, ![c].ctx = IF withCancel THEN TRUE ELSE @]
  /\ Emitting(<<[ev |-> "coord_move"]>> \o (IF withCancel THEN <<[ev |-> "cancel", c |-> c]>> ELSE <<>>))
  /\ script' = RecTrig(script, c, kind, at)
  /\ tb' = tb - 1
  /\ UNCHANGED <<cfg, fb>>

-----------------------------------------------------------------------------
(* Close: the driver closes every client in the end (normal end = no trigger) *)
CloseNormal(c) ==
  LET x == cl[c] IN
  /\ x.pc = "idle" /\ x.closed = "no" /\ x.calls >= 1
  /\ cl' = [cl EXCEPT ![c].closed = "closing"]
  /\ Emitting(<<[ev |-> "close_call", c |-> c]>>)
  /\ UNCHANGED <<cfg, co, fb, tb, script>>

\* Close got the Consume lock: LeaveGroup when a member id is set; afterwards the client is gone
CloseLeave(c) ==
  LET x == cl[c]
      \* broken variant: the empty-member-id check is made without waiting for the running Consume (no lock)
      early == Bug = "leave_skips_lock" /\ x.pc = "joinwait" /\ x.mid = "" IN
  /\ (x.pc = "idle" \/ early) /\ x.closed = "closing"
  /\ IF x.mid = ""
     THEN /\ co' = IF early THEN co ELSE RemoveAll(co, MidsOf(co, c))
          /\ Emitting(<<[ev |-> "close_ret", c |-> c, err |-> ""]>>)
          /\ UNCHANGED <<fb, script>>
     ELSE \E k \in {"ok"} \cup (IF fb > 0 THEN LeaveKinds ELSE {}) :
          LET v == IF Stale(x) THEN "notcoord" ELSE IF k = "ok" /\ x.mid \notin co.mem THEN "unknown" ELSE k
              g == IF v \in {"ok", "unknown"} THEN Remove(co, x.mid) ELSE co IN
          /\ Stale(x) => k = "ok"
          /\ co' = RemoveAll(g, MidsOf(g, c))
          /\ Emitting(<<[ev |-> "leave", c |-> c, mid |-> x.mid, err |-> v], [ev |-> "close_ret", c |-> c, err |-> ""]>>)
          /\ fb' = IF k = "ok" THEN fb ELSE fb - 1
          /\ script' = [script EXCEPT ![c].lf = k]
  /\ cl' = [cl EXCEPT ![c].closed = "done", ![c].pc = IF early THEN @ ELSE "done", ![c].mid = ""]
  /\ UNCHANGED <<cfg, tb>>

AllDone == \A c \in Clients : cl[c].pc = "done"

Next ==
  \/ \E c \in Clients :
       \/ ConsumeCall(c) \/ PersistArm(c, "sync") \/ PersistArm(c, "join") \/ PersistRefuse(c) \/ NoCoordClose(c, TRUE) \/ NoCoordClose(c, FALSE) \/ (\E k \in SetupFailKinds : SetupFail(c, k)) \/ JoinStale(c) \/ SyncStale(c) \/ TrigMove(c, TRUE) \/ TrigMove(c, FALSE) \/ JoinScripted(c) \/ JoinGenuine(c) \/ SyncScripted(c) \/ SyncGenuine(c) \/ SyncAbort(c)
       \/ SetupEnter(c) \/ SetupExit(c) \/ Watcher(c) \/ Release(c) \/ CleanupExit(c)
       \/ AutoCommit(c) \/ FinalCommit(c) \/ HbStop(c) \/ RetErr(c) \/ HbGenuine(c)
       \/ TrigCancel(c) \/ TrigClose(c) \/ TrigHb(c) \/ CloseNormal(c) \/ CloseLeave(c)
       \/ \E p \in Parts : ClaimBegin(c, p) \/ ClaimFail(c, p) \/ Deliver(c, p) \/ ClaimReturn(c, p)
  \/ JoinComplete
Spec == Init /\ [][Next]_vars

-----------------------------------------------------------------------------
(* properties *)
NoViolation == obs.bad = {}
\* with a committed offset that is out of range the code is known to lose marks (finding F-C07-stale-commit-blocks-marks):
\* every other clause still holds
OnlyKnownViolation == obs.bad \subseteq {"final_commit_after_cleanup"}

\* pc-based forms of the life-cycle clauses
CleanupAfterClaims ==
  \A c \in Clients : cl[c].pc \in {"incleanup", "final", "hbstop"} =>
     \A p \in cl[c].claims : cl[c].cst[p] \in {"ret", "skip"}
QuickExitOnlyWhenEnding ==
  \A c \in Clients : \A p \in Parts : cl[c].cst[p] = "skip" => cl[c].ctx
\* a claim that cannot start ends the session (else the partition stays unconsumed while heartbeats go on)
\* a session that fails in set-up is released and Consume returns (the error)
SetupFailureReturns == \A c \in Clients : cl[c].pc # "stuck"
ClaimFailEndsSession ==
  \A c \in Clients : (cl[c].pc = "run" /\ cl[c].df # -1) => cl[c].ctx
\* two members whose identity the coordinator still accepts never run claims on the same partition
Valid(c) == cl[c].pc \in SessionPcs /\ cl[c].sid \in co.mem /\ cl[c].sgen = co.gen /\ co.gs = "Stable"
ValidOwnersDisjoint ==
  \A c, d \in Clients : c # d /\ Valid(c) /\ Valid(d) => cl[c].claims \cap cl[d].claims = {}
\* the store never runs ahead of what handlers were given (nothing can be skipped)
StoreNotAhead == \A p \in Parts : co.store[p] = cfg.committed[p + 1] \/ co.store[p] <= co.hi[p]
\* the identity a session uses is the one the coordinator issued to that client
SessionIdentityIssued ==
  \A c \in Clients : cl[c].pc \in SessionPcs => cl[c].sid \in DOMAIN co.own /\ co.own[cl[c].sid] = c /\ cl[c].sgen <= co.gen
HeartbeatStoppedOutside == \A c \in Clients : cl[c].pc \notin SessionPcs => cl[c].hb # "on"

Scenario ==
  [np |-> NP, loglen |-> LogLen, logstart |-> 0, initial |-> cfg.initial, auto |-> cfg.auto, committed |-> cfg.committed,
   rretry |-> cfg.rretry, oretry |-> cfg.oretry,
   clients |-> [i \in 1..Len(SeqOfClients(Clients)) |->
                  LET c == SeqOfClients(Clients)[i] IN
                  [c |-> c, start |-> script[c].start, pre |-> script[c].pre, nsess |-> cl[c].calls, sess |-> script[c].sess, lf |-> script[c].lf]]]
Emitted == (Emit /\ AllDone) => PrintT(<<"CASE", ToJson(Scenario)>>)

View == <<cfg, co, cl, fb, tb, obs>>
\* generation only needs every distinct script once: the observer state is left out of the fingerprint
GenView == <<cfg, [co EXCEPT !.hi = 0], cl, fb, tb, script>>

(* constant values that a .cfg file cannot spell *)
H(m, n, k) == [mode |-> m, n |-> n, mark |-> k]
HandlersA == {H("early", 1, 1), H("drain", 1, 2), H("ctxwait", 0, 0)}
HandlersB == {H("early", 0, 0), H("early", 1, 0), H("early", 2, 2), H("drain", 0, 2), H("drain", 2, 1), H("ctxwait", 1, 1)}
HandlersC == {H("early", 1, 1), H("drain", 0, 2), H("drain", 1, 1), H("ctxwait", 1, 1)}
HandlersOne == {H("drain", 1, 2)}
HandlersEarly == {H("early", 1, 1)}
HandlersTwo == {H("drain", 1, 2), H("early", 1, 1)}
HandlersResume == {H("early", 1, 0), H("early", 1, 1), H("early", 2, 1), H("early", 2, 2)}
CC1r == {<<-1>>, <<1>>}
MC1 == [c \in Clients |-> 1]
MC2 == [c \in Clients |-> 2]
MC21 == [c \in Clients |-> IF c = "c1" THEN 2 ELSE 1]
MC3 == [c \in Clients |-> 3]
InitOldest == {-2}
InitNewest == {-1}
InitBoth == {-2, -1}
CC1 == {<<-1>>, <<1>>, <<9>>}
CC2 == {<<-1, 1>>}
CC3 == {<<-1, 1, 9>>, <<0, 3, -1>>}
CC2in == {<<-1, 1>>, <<2, 0>>, <<0, -1>>}
CC2oor == {<<9, 1>>, <<-1, 9>>}
CC2all == {<<-1, 1>>, <<2, 9>>, <<0, -1>>}
=============================================================================
