----------------------------- MODULE GroupTrace -----------------------------
(* Role 3 for C07: total observer over what the REAL consumerGroup did (recorded by
   harness/inpkg/group_test.go). Folds GroupObs!ObsStep over the NDJSON trace; every
   event at which a named clause is false adds <<trace, index, clause>> to viol, printed
   at the end of the file together with counters that expose vacuity.                    *)
EXTENDS GroupObs, TLC, Json

Trace == ndJsonDeserialize("trace.ndjson")

VARIABLES l, o, viol, st
vars == <<l, o, viol, st>>

E == Trace[l]

Stat0 == [traces |-> 0, consume_calls |-> 0, sessions |-> 0, claims |-> 0, quick_exits |-> 0,
          msgs |-> 0, marks |-> 0, requests |-> 0, faulty_answers |-> 0, commits_after_cleanup |-> 0,
          fenced_rejoins |-> 0, cleanups |-> 0, start_checks_committed |-> 0, errors_channels_closed |-> 0, sync_plans |-> 0]
Bump(s, f, n) == [s EXCEPT ![f] = @ + n]
B01(b) == IF b THEN 1 ELSE 0

Count(e) ==
  LET isReq == e.ev \in {"join_req", "sync_req", "hb", "commit", "leave"}
      isAns == e.ev \in {"join_resp", "sync_resp", "hb", "commit", "leave"} IN
  Bump(Bump(Bump(Bump(Bump(Bump(Bump(Bump(Bump(Bump(Bump(Bump(Bump(Bump(Bump(st,
    "sync_plans", B01(e.ev = "sync_plan")),
    "errors_channels_closed", B01(e.ev = "errors_closed")),
    "traces", B01(e.ev = "reset")),
    "consume_calls", B01(e.ev = "consume_call")),
    "sessions", B01(e.ev = "setup")),
    "claims", B01(e.ev = "claim_start")),
    "quick_exits", IF e.ev = "cleanup" /\ o.ph[e.c] = "setup" THEN Cardinality(o.claims[e.c] \ o.started[e.c]) ELSE 0),
    "msgs", B01(e.ev = "msg")),
    "marks", B01(e.ev = "mark")),
    "requests", B01(isReq)),
    "faulty_answers", B01(isAns /\ e.err # "ok")),
    "commits_after_cleanup", B01(e.ev = "commit" /\ o.ph[e.c] = "cleanup")),
    "fenced_rejoins", B01(e.ev = "join_req" /\ o.fenced[e.c])),
    "cleanups", B01(e.ev = "cleanup")),
    "start_checks_committed", B01(e.ev = "claim_start" /\ e.init >= 0))

Init == l = 1 /\ o = ObsInit /\ viol = {} /\ st = Stat0

TEnd == /\ E.ev = "end"
        /\ PrintT(<<"VIOL", ToJson(viol)>>)
        /\ PrintT(<<"STATS", ToJson(st)>>)
        /\ UNCHANGED <<o, viol, st>>

TEvent == /\ E.ev # "end"
          /\ LET n == ObsStep(o, E) IN
               /\ o' = n
               /\ viol' = viol \cup {<<E.t, E.i, b>> : b \in n.bad}
          /\ st' = Count(E)

Next == /\ l <= Len(Trace)
        /\ l' = l + 1
        /\ (TEvent \/ TEnd)
Spec == Init /\ [][Next]_vars
Accepted == TLCGet("stats").diameter - 1 = Len(Trace)
=============================================================================
