--------------------------- MODULE BrokerConnTrace ---------------------------
(* Role 3: total observer for C14. Reads what a REAL sarama Broker connection and the raw
   frame server of harness/inpkg/brokerconn_test.go did (one trace per replayed behaviour
   of spec/BrokerConn.tla) and evaluates the clauses of the property:

     own_response      a call that returns a response returns the content the server sent
                       for that very request (its own tag, and the server did send it)
     mismatch_is_fault the content of a frame whose correlation id is not the one of the
                       oldest outstanding request is never delivered to any call
     fail_after_fault  no call succeeds unless its answer was sent before the first faulty
                       frame (wrong / out-of-order id, stalled or cut body, runt or oversized
                       length, close), and no call started after a call has failed for a reason
                       other than its own undecodable body succeeds
     no_hang           every call and Close return (watchdog), no_panic: without panicking
     read_timeout_honoured  a call whose request the server leaves unanswered is back (with an
                       error) about Net.ReadTimeout after it was written, although other
                       requests keep being written on the connection - not WriteTimeout after
                       the last write (bound: harness, load-aware; premise: this trace)
     inflight_bound    at no time more than Net.MaxOpenRequests requests have been received
                       by the server and are still unanswered. Counted only over requests
                       whose call later returned its response (so the connection was
                       demonstrably healthy for all of them at that moment).

   Every event has the fields t, i, ev, c, tag, corr, kind, res, err, n. The observer never
   blocks: it accumulates <<t, i, clause>> in viol and prints the set at the `end` event.  *)
EXTENDS Naturals, Sequences, FiniteSets, TLC, Json

Trace == ndJsonDeserialize("trace.ndjson")

VARIABLES l, viol, feat, st, stats
vars == <<l, viol, feat, st, stats>>

E == Trace[l]
V(c) == {<<E.t, E.i, c>>}
When(cond, c) == IF cond THEN V(c) ELSE {}

Fresh(max) == [max |-> max,
               outst |-> <<>>,        \* requests received by the server, not yet consumed by an answer
               faulted |-> FALSE,     \* the server has sent a faulty frame / closed
               okSent |-> {},         \* tags answered by a matching well-formed frame before any fault
               answered |-> {},       \* tags consumed by a healthy frame (matching id, before any fault), whatever its body
               content |-> {},        \* contents of all well-formed frames sent
               misSent |-> {},        \* contents of frames whose correlation id was not the oldest outstanding one
               errSeen |-> FALSE,     \* some call has returned an error
               afterErr |-> {},       \* calls started after that
               started |-> {}, returned |-> {}, succ |-> {},
               reqs |-> <<>>]         \* [tag, r: index of srv_recv, s: index of the srv_send consuming it or 0]

Init == l = 1 /\ viol = {} /\ feat = {} /\ st = Fresh(0)
        /\ stats = [traces |-> 0, calls |-> 0, ok |-> 0, err |-> 0, frames |-> 0, faulty |-> 0,
                    rt_checks |-> 0, at_bound |-> 0, over_bound |-> 0, max_excess |-> 0]

Remove(s, tag) == SelectSeq(s, LAMBDA x : x.tag # tag)
MaxOf(S) == CHOOSE x \in S : \A y \in S : y <= x

TReset ==
  /\ E.ev = "reset"
  /\ st' = Fresh(E.n)
  /\ stats' = [stats EXCEPT !.traces = @ + 1]
  /\ UNCHANGED <<viol, feat>>

TCallStart ==
  /\ E.ev = "call_start"
  /\ st' = [st EXCEPT !.started = @ \cup {E.tag},
                      !.afterErr = IF st.errSeen THEN @ \cup {E.tag} ELSE @]
  /\ stats' = [stats EXCEPT !.calls = @ + 1]
  /\ UNCHANGED <<viol, feat>>

TSrvRecv ==
  /\ E.ev = "srv_recv"
  /\ st' = [st EXCEPT !.outst = Append(@, [corr |-> E.corr, tag |-> E.tag]),
                      !.reqs = Append(@, [tag |-> E.tag, r |-> E.i, s |-> 0])]
  /\ UNCHANGED <<viol, feat, stats>>

TSrvSend ==
  /\ E.ev = "srv_send"
  /\ LET wf == E.n = 1
         oldestOK == st.outst # <<>> /\ E.corr = Head(st.outst).corr
         \* a healthy frame: complete, correlation id of the oldest outstanding request, no fault before.
         \* (Its body may still be undecodable - kind shortbody - which fails that call only.)
         framed == wf /\ ~st.faulted /\ oldestOK
         match == framed /\ E.res = Head(st.outst).tag
     IN /\ st' = [st EXCEPT
                    !.outst = Remove(@, E.tag),
                    !.reqs = [k \in DOMAIN @ |-> IF @[k].tag = E.tag /\ @[k].s = 0 THEN [@[k] EXCEPT !.s = E.i] ELSE @[k]],
                    !.faulted = @ \/ ~framed,
                    !.answered = IF framed THEN @ \cup {Head(st.outst).tag} ELSE @,
                    !.okSent = IF match THEN @ \cup {E.res} ELSE @,
                    !.content = IF wf THEN @ \cup {E.res} ELSE @,
                    !.misSent = IF wf /\ ~oldestOK THEN @ \cup {E.res} ELSE @]
        /\ stats' = [stats EXCEPT !.frames = @ + 1, !.faulty = IF framed THEN @ ELSE @ + 1]
  /\ UNCHANGED <<viol, feat>>

TCallRet ==
  /\ E.ev = "call_ret"
  /\ LET ok == E.err = "" IN
     /\ st' = [st EXCEPT !.returned = @ \cup {E.tag},
                         !.succ = IF ok THEN @ \cup {E.tag} ELSE @,
                         \* an error of a call whose frame was healthy is that call's own decode error
                         \* (or a spurious local timeout), not evidence of a connection fault
                         !.errSeen = @ \/ (~ok /\ E.tag \notin st.answered)]
     /\ viol' = viol
          \cup When(E.err = "hang", "no_hang")
          \cup When(E.err = "panic", "no_panic")
          \cup When(ok /\ (E.res # E.tag \/ E.res \notin st.content), "own_response")
          \cup When(ok /\ E.res \in st.misSent, "mismatch_is_fault")
          \cup When(ok /\ ((st.faulted /\ E.tag \notin st.okSent) \/ E.tag \in st.afterErr), "fail_after_fault")
     /\ stats' = IF ok THEN [stats EXCEPT !.ok = @ + 1] ELSE [stats EXCEPT !.err = @ + 1]
  /\ UNCHANGED feat

\* a panic recovered by sarama's withRecover in a goroutine of this connection
TPanic ==
  /\ E.ev = "panic"
  /\ viol' = viol \cup V("no_panic")
  /\ UNCHANGED <<feat, st, stats>>

\* a request without response (acks = 0): it only has to return
TFire ==
  /\ E.ev \in {"fire_start", "fire_ret"}
  /\ viol' = viol \cup When(E.ev = "fire_ret" /\ E.err = "hang", "no_hang")
                  \cup When(E.ev = "fire_ret" /\ E.err = "panic", "no_panic")
  /\ UNCHANGED <<feat, st, stats>>

\* write-deadline family: the harness reports that its load-aware bound (a generous multiple of
\* Net.ReadTimeout = E.n ms, far below Net.WriteTimeout / the duration of the continuing writes) has
\* expired. Violated when, by THIS trace, the call was started, its request reached the server, the
\* server has sent nothing at all since (silence), and the call has not returned.
TRtCheck ==
  /\ E.ev = "rt_check"
  /\ LET silentFor == \E k \in DOMAIN st.outst : st.outst[k].tag = E.tag
         waiting == E.tag \in st.started \ st.returned
     IN /\ viol' = viol \cup When(E.kind # "starved" /\ silentFor /\ waiting /\ ~st.faulted, "read_timeout_honoured")
        /\ stats' = [stats EXCEPT !.rt_checks = @ + 1]
  /\ UNCHANGED <<feat, st>>

TClose ==
  /\ E.ev \in {"close_start", "close_ret"}
  /\ viol' = viol \cup When(E.ev = "close_ret" /\ E.err = "hang", "no_hang")
                  \cup When(E.ev = "close_ret" /\ E.err = "panic", "no_panic")
  /\ UNCHANGED <<feat, st, stats>>

\* end of one trace: the in-flight bound over the certified (later successful) requests
TDone ==
  /\ E.ev = "done"
  /\ LET S == {k \in DOMAIN st.reqs : st.reqs[k].tag \in st.succ}
         Cnt(k) == Cardinality({j \in S : /\ st.reqs[j].r <= st.reqs[k].r
                                          /\ (st.reqs[j].s = 0 \/ st.reqs[j].s > st.reqs[k].r)})
         worst == IF S = {} THEN 0 ELSE MaxOf({Cnt(k) : k \in S})
         at == IF S = {} THEN 0 ELSE st.reqs[CHOOSE k \in S : Cnt(k) = worst].r
         excess == IF worst > st.max THEN worst - st.max ELSE 0
     IN /\ viol' = viol \cup (IF excess > 0 THEN {<<E.t, at, "inflight_bound">>} ELSE {})
                        \cup When(st.started \ st.returned # {}, "no_hang")
        /\ feat' = feat \cup (IF excess > 0 THEN {<<E.t, at, excess>>} ELSE {})
        /\ stats' = [stats EXCEPT !.at_bound = IF worst = st.max THEN @ + 1 ELSE @,
                                  !.over_bound = IF excess > 0 THEN @ + 1 ELSE @,
                                  !.max_excess = IF excess > @ THEN excess ELSE @]
  /\ UNCHANGED st

TEnd ==
  /\ E.ev = "end"
  /\ PrintT(<<"VIOL", ToJson(viol)>>)
  /\ PrintT(<<"FEAT", ToJson(feat)>>)
  /\ PrintT(<<"STATS", ToJson(stats)>>)
  /\ UNCHANGED <<viol, feat, st, stats>>

Next == /\ l <= Len(Trace)
        /\ l' = l + 1
        /\ (TReset \/ TCallStart \/ TSrvRecv \/ TSrvSend \/ TCallRet \/ TClose \/ TFire \/ TRtCheck \/ TPanic \/ TDone \/ TEnd)
Spec == Init /\ [][Next]_vars
Accepted == TLCGet("stats").diameter - 1 = Len(Trace)
=============================================================================
