------------------------------ MODULE MocksCons ------------------------------
(* The consumer mock of package sarama/mocks (Consumer + PartitionConsumer) as a state machine
   over the slots of MocksOracle (topic tc / td x partition 0 / 1, registered at will; the cfg picks the
   slots in use with Slots) and one partition that is never registered:

     ExpectCP(p, off)     Consumer.ExpectConsumePartition
     YieldMsg(p) / YieldErr(p) / Drain(p, w)   PartitionConsumer.YieldMessage / YieldError /
                                               ExpectMessagesDrainedOnClose / ExpectErrorsDrainedOnClose
     Consume(p, off)      Consumer.ConsumePartition
     ReadMsg(p) / ReadErr(p)   one receive from Messages() / Errors()
     AsyncClose(p) / ClosePC(p) / CloseAll     the close orders
     SetMeta(v) / TopicsOp / PartitionsOp(t)   SetTopicMetadata, Topics(), Partitions(topic)
     Feed(p, n, b)        a feeder goroutine calls YieldMessage n times on a mock whose channels have b buffer
                          slots (Config.ChannelBufferSize); every later step is observed with the feeder at
                          rest (blocked in a channel send or finished)
   PartitionConsumer.HighWaterMarkOffset() and Consumer.HighWaterMarks() of all slots are part of every
   step's observation.  OpSet (cfg) restricts the operations of a family.

   Steps are computed with MocksOracle's C* functions (shared with the trace observer); the
   invariants restate the consumer clauses of C20 declaratively over the history.
   With AllPaths = FALSE the VIEW hides the history, TLC explores the quotient graph and the
   ACTION_CONSTRAINT EmitEdge prints one case per explored transition (edge coverage of the state
   graph); with AllPaths = TRUE every path up to MaxOps is a case.                          *)
EXTENDS MocksOracle, Json

CONSTANTS MaxOps, MaxYield, MaxErr, AllPaths, SymBreak, Slots, OpSet, FeedLens, FeedBufs, EmitCases

VARIABLES cs, md, hist
vars == <<cs, md, hist>>

Oldest == -2
EOffs == {Oldest, AnyOff}       \* offsets a test registers
COffs == {Oldest, 7}            \* offsets a test consumes from

Hwms(s) == [k \in 1..4 |-> IF s[k - 1].reg THEN CHwm(s[k - 1]) ELSE -1]
HE(op, p, off, w, id, r) ==
  [op |-> op, p |-> p, off |-> off, w |-> w, id |-> id, ret |-> r.ret, rep |-> r.rep, val |-> r.val,
   errs |-> r.errs, tset |-> {}, hwm |-> Hwms(r.cs)]
Do(op, p, off, w, id, r) ==
  /\ op \in OpSet
  /\ cs' = r.cs /\ hist' = Append(hist, HE(op, p, off, w, id, r)) /\ UNCHANGED md

Init == cs = CInit /\ md = 0 /\ hist = <<>>

\* topic metadata
MetaHE(op, w, id, ret, rep, errs, tset) ==
  [op |-> op, p |-> 0, off |-> 0, w |-> w, id |-> id, ret |-> ret, rep |-> rep, val |-> <<>>,
   errs |-> errs, tset |-> tset, hwm |-> Hwms(cs)]
SetMeta(v) ==
  /\ "setmeta" \in OpSet
  /\ md' = v /\ hist' = Append(hist, MetaHE("setmeta", "-", v, "ok", <<>>, <<>>, {})) /\ UNCHANGED cs
TopicsOp ==
  /\ "topics" \in OpSet
  /\ LET r == CTopics(md) IN hist' = Append(hist, MetaHE("topics", "-", 0, r.ret, r.rep, <<>>, r.tset))
  /\ UNCHANGED <<cs, md>>
PartitionsOp(t) ==
  /\ "partitions" \in OpSet
  /\ LET r == CPartitions(md, t) IN hist' = Append(hist, MetaHE("partitions", t, 0, r.ret, r.rep, r.parts, {}))
  /\ UNCHANGED <<cs, md>>

\* SymBreak (only meaningful for Slots = {0, 1}): partitions 0 and 1 of one topic are interchangeable,
\* so partition 1 is only registered after partition 0
ExpectCP(p, off) ==
  /\ ~cs[p].reg \/ cs[p].eoff = off
  /\ SymBreak => (p = 0 \/ cs[0].reg)
  /\ Do("expect", p, off, "-", 0, CExpect(cs, p, off))
YieldMsg(p) ==
  /\ cs[p].reg /\ ~cs[p].closed /\ cs[p].yields < MaxYield
  /\ Do("yieldmsg", p, 0, "-", MidOf(p, cs[p].yields + 1), CYieldMsg(cs, p, MidOf(p, cs[p].yields + 1)))
YieldErr(p) ==
  /\ cs[p].reg /\ ~cs[p].closed /\ cs[p].nerr < MaxErr
  /\ Do("yielderr", p, 0, "-", MidOf(p, cs[p].nerr + 1), CYieldErr(cs, p, MidOf(p, cs[p].nerr + 1)))
Drain(p, w) ==
  /\ cs[p].reg /\ ~(IF w = "m" THEN cs[p].dm ELSE cs[p].de)
  /\ Do("drain", p, 0, w, 0, CDrain(cs, p, w))
Consume(p, off) == Do("consume", p, off, "-", 0, CConsume(cs, p, off))
NoFeeder == \A q \in CParts : cs[q].feed = 0
Feed(p, n, b) ==
  /\ cs[p].consumed /\ ~cs[p].closed /\ cs[p].yields = 0 /\ NoFeeder
  /\ Do("feed", p, b, "-", n, CFeed(cs, p, n, b))
ReadMsg(p) == cs[p].consumed /\ cs[p].mq # <<>> /\ Do("readmsg", p, 0, "-", 0, CReadMsg(cs, p))
ReadErr(p) == cs[p].consumed /\ cs[p].eq # <<>> /\ Do("readerr", p, 0, "-", 0, CReadErr(cs, p))
AsyncClose(p) == cs[p].consumed /\ ~cs[p].closed /\ Do("asyncclose", p, 0, "-", 0, CAsyncClose(cs, p))
ClosePC(p) == cs[p].reg /\ Do("closepc", p, 0, "-", 0, CClosePC(cs, p))
CloseAll == Do("closeall", 0, 0, "-", 0, CCloseAll(cs))

Next ==
  /\ Len(hist) < MaxOps
  /\ \/ \E p \in Slots, off \in EOffs : ExpectCP(p, off)
     \/ \E p \in Slots : YieldMsg(p) \/ YieldErr(p) \/ ReadMsg(p) \/ ReadErr(p) \/ AsyncClose(p) \/ ClosePC(p)
     \/ \E p \in Slots, w \in {"m", "e"} : Drain(p, w)
     \/ \E p \in Slots \cup {CNever}, off \in COffs : Consume(p, off)
     \/ CloseAll
     \/ \E v \in {1, 2} : SetMeta(v)
     \/ TopicsOp
     \/ \E t \in {"tc", "td", "tx"} : PartitionsOp(t)
     \/ \E p \in Slots, n \in FeedLens, b \in FeedBufs : Feed(p, n, b)
Spec == Init /\ [][Next]_vars

View == IF AllPaths THEN <<cs, md, hist>> ELSE <<cs, md>>

-----------------------------------------------------------------------------
(* ---------- the consumer clauses of C20, declaratively over the history ---------- *)
Idx == DOMAIN hist
On(p, ops) == {i \in Idx : hist[i].op \in ops /\ hist[i].p = p}
SeqOf(S, f(_)) ==      \* <<f(i) : i \in S>> in increasing order of i
  LET RECURSIVE F(_)
      F(n) == IF n = 0 THEN <<>> ELSE IF n \in S THEN Append(F(n - 1), f(n)) ELSE F(n - 1)
  IN F(Len(hist))
RECURSIVE Flat(_)
Flat(ss) == IF ss = <<>> THEN <<>> ELSE Head(ss) \o Flat(Tail(ss))

\* a feeder on p: its script length and buffer size (0 / 0 when there is none before step i)
FeedAt(p, i) == LET S == On(p, {"feed"}) \cap 1..i IN IF S = {} THEN <<0, 0>> ELSE LET j == CHOOSE j \in S : TRUE IN <<hist[j].id, hist[j].off>>
ReadsUpTo(p, i) == Cardinality(On(p, {"readmsg"}) \cap 1..i)
Min2(a, b) == IF a < b THEN a ELSE b
\* messages whose YieldMessage has started after step i: the yieldmsg operations, or, with a feeder at rest,
\* the received ones + buffer + the one in flight
Started(p, i) ==
  IF FeedAt(p, i)[1] > 0 THEN Min2(FeedAt(p, i)[1], ReadsUpTo(p, i) + FeedAt(p, i)[2] + 1)
  ELSE Cardinality(On(p, {"yieldmsg"}) \cap 1..i)
YieldedMsgs(p) ==
  IF FeedAt(p, Len(hist))[1] > 0 THEN [k \in 1..Started(p, Len(hist)) |-> <<MidOf(p, k), k, p>>]
  ELSE SeqOf(On(p, {"yieldmsg"}), LAMBDA i : hist[i].val)
ReadMsgs(p) == SeqOf(On(p, {"readmsg"}), LAMBDA i : hist[i].val)
YieldedErrs(p) == SeqOf(On(p, {"yielderr"}), LAMBDA i : hist[i].id)
TakenErrs(p) == Flat(SeqOf(On(p, {"readerr", "closepc"}), LAMBDA i : hist[i].errs))

\* messages get consecutive offsets in yield order (and carry their partition)
ConsecutiveOffsets ==
  \A p \in CParts : LET y == YieldedMsgs(p) IN \A j \in DOMAIN y : y[j] = <<MidOf(p, j), j, p>>
\* scripted messages and errors come out per partition in the order they were yielded
MessagesInOrder ==
  \A p \in CParts : LET r == ReadMsgs(p) IN Len(r) <= Len(YieldedMsgs(p)) /\ r = SubSeq(YieldedMsgs(p), 1, Len(r))
ErrorsInOrder ==
  \A p \in CParts : LET r == TakenErrs(p) IN Len(r) <= Len(YieldedErrs(p)) /\ r = SubSeq(YieldedErrs(p), 1, Len(r))
\* the high-water mark is the offset after the last yielded message
HighWaterMark ==
  \A i \in Idx : \A p \in CParts :
    hist[i].hwm[p + 1] = IF On(p, {"expect"}) \cap 1..i = {} THEN -1
                         ELSE Started(p, i) + 1

Registered(p, i) == On(p, {"expect"}) \cap 1..(i - 1) # {}
OkConsumes(p, i) == {j \in On(p, {"consume"}) : j < i /\ hist[j].ret = "ok"}
FirstExpOff(p) == hist[CHOOSE i \in On(p, {"expect"}) : \A j \in On(p, {"expect"}) : i <= j].off
ConsumeResult ==
  \A i \in Idx : hist[i].op = "consume" =>
    LET p == hist[i].p IN
    hist[i].ret = IF p \notin CParts \/ ~Registered(p, i) THEN "noexp"
                  ELSE IF OkConsumes(p, i) # {} THEN "already" ELSE "ok"

\* channel contents at step i
ClosedBefore(p, i) == \E j \in 1..(i - 1) : /\ hist[j].op = "closeall" \/ (hist[j].op = "closepc" /\ hist[j].p = p)
                                            /\ OkConsumes(p, j) # {}
PendM(p, i) == IF ClosedBefore(p, i) THEN 0
               ELSE Started(p, i - 1) - Cardinality(On(p, {"readmsg"}) \cap 1..(i - 1))
PendE(p, i) == IF ClosedBefore(p, i) THEN 0
               ELSE Cardinality(On(p, {"yielderr"}) \cap 1..(i - 1)) - Cardinality(On(p, {"readerr"}) \cap 1..(i - 1))
DrainSet(p, w, i) == \E j \in On(p, {"drain"}) : j < i /\ hist[j].w = w

\* Topics() / Partitions() answer from the metadata set last
MetaBefore(i) ==
  LET S == {j \in 1..(i - 1) : hist[j].op = "setmeta"} IN
  IF S = {} THEN 0 ELSE hist[CHOOSE j \in S : \A q \in S : q <= j].id
MetadataResult ==
  \A i \in Idx :
    LET v == MetaBefore(i) IN
    /\ hist[i].op = "topics" =>
         IF v = 0 THEN hist[i].ret = "outofbrokers" ELSE hist[i].ret = "ok" /\ hist[i].tset = MetaTopics(v)
    /\ hist[i].op = "partitions" =>
         IF v = 0 THEN hist[i].ret = "outofbrokers"
         ELSE IF hist[i].w \notin MetaTopics(v) THEN hist[i].ret = "unknowntopic"
         ELSE hist[i].ret = "ok" /\ hist[i].errs = MetaParts(v, hist[i].w)

\* every deviation is reported to the ErrorReporter, and nothing else is
AllRep == Flat(SeqOf(Idx, LAMBDA i : hist[i].rep))
Closes(p) == {i \in Idx : hist[i].op = "closeall" \/ (hist[i].op = "closepc" /\ hist[i].p = p)}
ReporterExact ==
  LET b == BagOf(AllRep)
      cnt(x) == IF x \in DOMAIN b THEN b[x] ELSE 0
      Sum(f(_)) == f(0) + f(1) + f(2) + f(3)
  IN
  /\ DOMAIN b \subseteq {"unexpected_partition", "unexpected_offset", "not_started", "errors_not_drained", "messages_not_drained",
                          "no_metadata"}
  /\ cnt("no_metadata") = Cardinality({i \in Idx : hist[i].op \in {"topics", "partitions"} /\ MetaBefore(i) = 0})
  /\ cnt("unexpected_partition") = Cardinality({i \in Idx : hist[i].op = "consume" /\ hist[i].ret = "noexp"})
  /\ cnt("unexpected_offset") =
       Cardinality({i \in Idx : hist[i].op = "consume" /\ hist[i].ret = "ok"
                                /\ FirstExpOff(hist[i].p) \notin {AnyOff, hist[i].off}})
  /\ cnt("not_started") = Sum(LAMBDA p : Cardinality({i \in Closes(p) : Registered(p, i) /\ OkConsumes(p, i) = {}}))
  /\ cnt("messages_not_drained") =
       Sum(LAMBDA p : Cardinality({i \in Closes(p) : OkConsumes(p, i) # {} /\ DrainSet(p, "m", i) /\ PendM(p, i) > 0}))
  /\ cnt("errors_not_drained") =
       Sum(LAMBDA p : Cardinality({i \in Closes(p) : OkConsumes(p, i) # {} /\ DrainSet(p, "e", i) /\ PendE(p, i) > 0}))

\* the model's queues are what the history says is pending
QueuesMatchHistory ==
  \A p \in CParts : Len(cs[p].mq) = PendM(p, Len(hist) + 1) /\ (cs[p].consumed <=> OkConsumes(p, Len(hist) + 1) # {})

-----------------------------------------------------------------------------
OpJson(h) == [op |-> h.op, p |-> h.p, off |-> h.off, w |-> h.w, id |-> h.id]
CaseOf(h) == ToJson([comp |-> "cons", ops |-> [i \in DOMAIN h |-> OpJson(h[i])]])
\* AllPaths: every state is a case
Emit == (EmitCases /\ AllPaths /\ hist # <<>>) => PrintT(<<"CASE", CaseOf(hist)>>)
\* ~AllPaths: one case per explored transition of the quotient graph (ACTION_CONSTRAINT)
EmitEdge == (EmitCases /\ ~AllPaths) => PrintT(<<"CASE", CaseOf(hist')>>)
=============================================================================
