---------------------------- MODULE BalanceTrace ----------------------------
(* Role 3/4: evaluates the C08/C13 oracle of BalanceOracle on plans computed by the REAL
   range / round-robin / sticky strategies (recorded by harness/inpkg/balance_test.go).
   Total observer: never blocks, accumulates <<trace, index, clause>> in viol and prints
   the set at the end of the file.                                                       *)
EXTENDS BalanceOracle, TLC, Json

Trace == ndJsonDeserialize("trace.ndjson")

VARIABLES l, viol, nplans
vars == <<l, viol, nplans>>

E == Trace[l]
V(c) == {<<E.t, E.i, c>>}
ToSet(s) == {s[k] : k \in DOMAIN s}
When(cond, c) == IF cond THEN V(c) ELSE {}

MemS(e) == ToSet(e.mem)
SubF(ms, pairs) == [m \in ms |-> {p[2] : p \in {q \in ToSet(pairs) : q[1] = m}}]
NpF(pairs) == [t \in {p[1] : p \in ToSet(pairs)} |-> (CHOOSE p \in ToSet(pairs) : p[1] = t)[2]]

PlanClauses ==
  LET mem == MemS(E)
      sub == SubF(mem, E.sub)
      np == NpF(E.np)
      plan == ToSet(E.plan)
      prev == ToSet(E.prev)
      omem == ToSet(E.omem)
      osub == SubF(omem, E.osub)
      \* "given": the previous assignment was handed in as arbitrary user data (C08's quantifier), not produced by the
      \* strategy - the stickiness clauses (whose premise is a fed-back plan) do not apply to that step
      chained == E.strat = "sticky" /\ E.kind \notin {"init", "given"}
  IN
  IF E.err # "" THEN V("plan_error")
  ELSE
     \* ---- C08
     When(Len(E.plan) # Cardinality(plan), "no_duplicate_entries")
     \cup When(~OnlySubscribers(mem, sub, np, plan), "only_subscribers")
     \cup When(~OnlyExisting(mem, sub, np, plan), "only_existing")
     \cup When(~ExactlyOnce(mem, sub, np, plan), "exactly_once")
     \* ---- C13
     \cup When(E.strat = "range" /\ ~RangeShape(mem, sub, np, plan), "range_shape")
     \cup When(E.strat = "roundrobin" /\ ~RoundRobinFair(mem, sub, np, plan), "roundrobin_fair")
     \cup When(E.strat = "sticky" /\ ~StickyBalanced(mem, sub, np, plan), "sticky_balanced")
     \cup When(chained /\ E.kind = "same" /\ ~FixedPoint(prev, plan), "sticky_fixed_point")
     \cup When(chained /\ E.kind = "leave" /\ IdenticalSubs(omem, osub) /\ ~KeepOnLeave(mem, prev, plan), "sticky_keep_on_leave")
     \cup When(chained /\ E.kind = "join" /\ IdenticalSubs(mem, sub) /\ ~NoShuffleOnJoin(omem, prev, plan), "sticky_no_shuffle_on_join")
     \cup When(chained /\ ~NoPairwiseSwap(prev, plan), "sticky_no_pairwise_swap")

Init == l = 1 /\ viol = {} /\ nplans = 0

TPlan == /\ E.ev = "plan"
         /\ viol' = viol \cup PlanClauses
         /\ nplans' = nplans + 1
TReset == /\ E.ev = "reset" /\ UNCHANGED <<viol, nplans>>
TEnd == /\ E.ev = "end"
        /\ PrintT(<<"VIOL", ToJson(viol)>>)
        /\ PrintT(<<"STATS", ToJson([plans |-> nplans])>>)
        /\ UNCHANGED <<viol, nplans>>

Next == /\ l <= Len(Trace)
        /\ l' = l + 1
        /\ (TPlan \/ TReset \/ TEnd)
Spec == Init /\ [][Next]_vars
Accepted == TLCGet("stats").diameter - 1 = Len(Trace)
=============================================================================
