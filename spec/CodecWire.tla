----------------------------- MODULE CodecWire -----------------------------
(* Kafka wire formats of sarama's primitive codec as TLA+ functions, and the three machines that
   use them, each as a step function over an explicit state record:

     PrepStep  prep_encoder.go   the sizing pass     (length, stack of push fields)
     RealStep  real_encoder.go   the writing pass    (raw, off, stack), length_field.go, crc32_field.go
     DecStep   real_decoder.go   the reading pass    (off, stack)

   A *program* is a sequence of ops [k, n, v] (one packetEncoder call each, the tape of typed cells):
     k  kind (string);  n  small integer (length / count / -1 for nil / 0-1 for bool);
     v  sequence of 64-bit values.
   A 64-bit value is a tuple of 4 limbs of 16 bits, most significant first (TLC integers are 32-bit),
   in two's complement: exactly the bits of the Go int64/uint64.
   Bytes are 0..255. A CRC field cannot be computed here; its 4 bytes are the symbolic cells
   CrcCell(site, 1..4) (integers >= 1000) and the extent it covers is kept in `crcs` (the harness
   computes hash/crc32 over that extent, the trace spec compares).                                *)
EXTENDS Integers, Sequences, FiniteSets

(* ------------------------------------------------------------------ 64-bit values *)
Zero == <<0, 0, 0, 0>>
U(n) == <<0, 0, n \div 65536, n % 65536>>                                  \* 0 <= n < 2^31
N(n) == LET m == n - 1 IN <<65535, 65535, 65535 - (m \div 65536), 65535 - (m % 65536)>>   \* the value -n, 1 <= n < 2^31
I(n) == IF n < 0 THEN N(0 - n) ELSE U(n)
IsNeg(v) == v[1] >= 32768
Not(v) == <<65535 - v[1], 65535 - v[2], 65535 - v[3], 65535 - v[4]>>
Shl1(v) == <<((v[1] * 2) % 65536) + (v[2] \div 32768), ((v[2] * 2) % 65536) + (v[3] \div 32768),
             ((v[3] * 2) % 65536) + (v[4] \div 32768), (v[4] * 2) % 65536>>
Shr1(v) == <<v[1] \div 2, (v[2] \div 2) + ((v[1] % 2) * 32768), (v[3] \div 2) + ((v[2] % 2) * 32768),
             (v[4] \div 2) + ((v[3] % 2) * 32768)>>
Shr7(v) == <<v[1] \div 128, (v[2] \div 128) + ((v[1] % 128) * 512), (v[3] \div 128) + ((v[2] % 128) * 512),
             (v[4] \div 128) + ((v[3] % 128) * 512)>>

(* ------------------------------------------------------------------ prescribed encodings *)
\* big-endian two's complement of the low w bytes (w in {1,2,4,8}): Kafka INT8/INT16/INT32/INT64
ByteOf(v, j) == LET l == v[4 - (j \div 2)] IN IF j % 2 = 0 THEN l % 256 ELSE l \div 256
BE(v, w) == [i \in 1..w |-> ByteOf(v, w - i)]
\* unsigned LEB128 (Kafka UNSIGNED_VARINT) and zig-zag (Kafka VARINT / VARLONG)
RECURSIVE UVar(_)
UVar(u) == IF Shr7(u) = Zero THEN <<u[4] % 128>> ELSE <<(u[4] % 128) + 128>> \o UVar(Shr7(u))
ZigZag(v) == IF IsNeg(v) THEN Not(Shl1(v)) ELSE Shl1(v)
UnZig(u) == IF u[4] % 2 = 1 THEN Not(Shr1(u)) ELSE Shr1(u)
Var(v) == UVar(ZigZag(v))
VarSize(n) == Len(Var(I(n)))                      \* bytes of the zig-zag varint of a small integer

\* payload conventions shared with the harness (codec_prog_test.go): byte i (1-based) of a blob / string
Raw(n) == [i \in 1..n |-> (i * 7) % 256]
Chars(n) == [i \in 1..n |-> 97 + (i % 26)]
Max0(n) == IF n < 0 THEN 0 ELSE n
RECURSIVE CatBE(_, _, _), CatStr(_, _), CatChars(_, _)
CatBE(s, w, i) == IF i > Len(s) THEN <<>> ELSE BE(s[i], w) \o CatBE(s, w, i + 1)
CatStr(s, i) == IF i > Len(s) THEN <<>> ELSE BE(s[i], 2) \o Chars(s[i][4]) \o CatStr(s, i + 1)   \* STRINGs of the given lengths
CatChars(s, i) == IF i > Len(s) THEN <<>> ELSE Chars(s[i][4]) \o CatChars(s, i + 1)

CrcCell(site, j) == 1000 + 4 * site + (j - 1)
IsCrcCell(x) == x >= 1000
CrcSite(x) == (x - 1000) \div 4

PlainKinds == {"i8", "i16", "i32", "i64", "var", "uvar", "arrlen", "carrlen", "bool", "bytes", "varbytes",
               "cbytes", "raw", "str", "nstr", "cstr", "ncstr", "strarr", "i32arr", "i64arr", "ci32arr",
               "nci32arr", "tagged"}
PushKinds == {"push_len", "push_varlen", "push_crc_ieee", "push_crc_cast"}
IsPush(op) == op.k \in PushKinds
IsPop(op) == op.k = "pop"

\* the bytes the Kafka protocol prescribes for one primitive call
Enc0(op) ==
  CASE op.k = "i8" -> BE(op.v[1], 1)
    [] op.k = "i16" -> BE(op.v[1], 2)
    [] op.k = "i32" -> BE(op.v[1], 4)
    [] op.k = "i64" -> BE(op.v[1], 8)
    [] op.k = "var" -> Var(op.v[1])
    [] op.k = "uvar" -> UVar(op.v[1])
    [] op.k = "arrlen" -> BE(I(op.n), 4)                                       \* ARRAY count, -1 = null
    [] op.k = "carrlen" -> UVar(U(op.n + 1))                                   \* COMPACT_ARRAY count + 1
    [] op.k = "bool" -> <<op.n>>
    [] op.k = "bytes" -> BE(I(op.n), 4) \o Raw(Max0(op.n))                     \* NULLABLE_BYTES
    [] op.k = "varbytes" -> Var(I(op.n)) \o Raw(Max0(op.n))                    \* record key / value
    [] op.k = "cbytes" -> UVar(U(Max0(op.n) + 1)) \o Raw(Max0(op.n))           \* COMPACT_BYTES
    [] op.k = "raw" -> Raw(op.n)
    [] op.k \in {"str", "nstr"} -> BE(I(op.n), 2) \o Chars(Max0(op.n))          \* (NULLABLE_)STRING
    [] op.k = "cstr" -> UVar(U(op.n + 1)) \o Chars(op.n)                       \* COMPACT_STRING
    [] op.k = "ncstr" -> UVar(U(op.n + 1)) \o Chars(Max0(op.n))                \* COMPACT_NULLABLE_STRING (n = -1: 0)
    [] op.k = "strarr" -> BE(U(Max0(op.n)), 4) \o CatStr(op.v, 1)
    [] op.k = "i32arr" -> BE(U(Max0(op.n)), 4) \o CatBE(op.v, 4, 1)
    [] op.k = "i64arr" -> BE(U(Max0(op.n)), 4) \o CatBE(op.v, 8, 1)
    [] op.k \in {"ci32arr", "nci32arr"} -> UVar(U(op.n + 1)) \o CatBE(op.v, 4, 1)   \* n = -1 (null): 0
    [] op.k = "tagged" -> <<0>>

(* ------------------------------------------------------------------ alphabets of Codec.tla *)
Sc(k, val) == [k |-> k, n |-> 0, v |-> <<val>>]
Ln(k, n) == [k |-> k, n |-> n, v |-> <<>>]
Ar(k, vs) == [k |-> k, n |-> Len(vs), v |-> vs]
NilAr(k) == [k |-> k, n |-> -1, v |-> <<>>]
M1 == N(1)
Max8 == U(127)
Min8 == N(128)
E16 == U(258)
Max16 == U(32767)
Min16 == N(32768)
E32 == <<0, 0, 258, 772>>
Max32 == <<0, 0, 32767, 65535>>
Min32 == <<65535, 65535, 32768, 0>>
E64 == <<258, 772, 1286, 1800>>
Max64 == <<32767, 65535, 65535, 65535>>
Min64 == <<32768, 0, 0, 0>>
MaxU64 == <<65535, 65535, 65535, 65535>>

Wide ==
  {Sc("i8", x) : x \in {M1, Zero, Max8, Min8}}
  \cup {Sc("i16", x) : x \in {M1, Zero, E16, Max16, Min16}}
  \cup {Sc("i32", x) : x \in {M1, Zero, E32, Max32, Min32}}
  \cup {Sc("i64", x) : x \in {M1, Zero, E64, Max64, Min64}}
  \cup {Sc("var", x) : x \in {M1, Zero, U(63), U(64), N(64), N(65), U(8192), Max64, Min64}}
  \cup {Sc("uvar", x) : x \in {Zero, U(1), U(127), U(128), U(16383), U(16384), Max64, Min64, MaxU64}}
  \cup {Ln("arrlen", x) : x \in {-1, 0, 1, 2}}
  \cup {Ln("carrlen", x) : x \in {0, 1, 126, 127}}
  \cup {Ln("bool", x) : x \in {0, 1}}
  \cup {Ln("bytes", x) : x \in {-1, 0, 1, 3}}
  \cup {Ln("varbytes", x) : x \in {-1, 0, 1, 63, 64}}
  \cup {Ln("cbytes", x) : x \in {-1, 0, 1, 126, 127}}
  \cup {Ln("raw", x) : x \in {0, 1, 63, 64}}
  \cup {Ln("str", x) : x \in {0, 1, 3}}
  \cup {Ln("nstr", x) : x \in {-1, 0, 2}}
  \cup {Ln("cstr", x) : x \in {0, 1, 126, 127}}
  \cup {Ln("ncstr", x) : x \in {-1, 0, 127}}
  \cup {NilAr("strarr"), Ar("strarr", <<>>), Ar("strarr", <<U(1)>>), Ar("strarr", <<U(0), U(2)>>)}
  \cup {NilAr("i32arr"), Ar("i32arr", <<>>), Ar("i32arr", <<Max32>>), Ar("i32arr", <<M1, E32>>)}
  \cup {NilAr("i64arr"), Ar("i64arr", <<>>), Ar("i64arr", <<Min64, U(1)>>)}
  \cup {NilAr("ci32arr"), Ar("ci32arr", <<>>), Ar("ci32arr", <<U(1), M1>>)}
  \cup {NilAr("nci32arr"), Ar("nci32arr", <<>>), Ar("nci32arr", <<E32>>)}
  \cup {Ln("tagged", 0)}

Core ==
  {Sc("i8", x) : x \in {M1, Min8}}
  \cup {Sc("i16", x) : x \in {E16, Min16}}
  \cup {Sc("i32", x) : x \in {M1, E32, Min32}}
  \cup {Sc("i64", x) : x \in {E64, Max64}}
  \cup {Sc("var", x) : x \in {M1, Zero, U(63), U(64), N(65), Min64}}
  \cup {Sc("uvar", x) : x \in {U(127), U(128), MaxU64}}
  \cup {Ln("arrlen", x) : x \in {-1, 2}}
  \cup {Ln("carrlen", x) : x \in {1, 127}}
  \cup {Ln("bool", 1)}
  \cup {Ln("bytes", x) : x \in {-1, 0, 3}}
  \cup {Ln("varbytes", x) : x \in {-1, 0, 64}}
  \cup {Ln("cbytes", x) : x \in {0, 127}}
  \cup {Ln("raw", x) : x \in {1, 63}}
  \cup {Ln("str", x) : x \in {0, 3}}
  \cup {Ln("nstr", -1)}
  \cup {Ln("cstr", x) : x \in {126, 127}}
  \cup {Ln("ncstr", -1)}
  \cup {Ar("strarr", <<U(0), U(2)>>), Ar("i32arr", <<M1, E32>>), NilAr("i64arr"),
        NilAr("nci32arr"), Ar("nci32arr", <<E32>>), Ln("tagged", 0)}

\* one or two telling values of every primitive: the alphabet of the exhaustive length-4 run
Mini ==
  {Sc("i8", Min8), Sc("i16", E16), Sc("i32", Min32), Sc("i64", E64), Sc("var", N(65)), Sc("var", U(64)),
   Sc("uvar", U(128)), Sc("uvar", MaxU64), Ln("arrlen", 2), Ln("carrlen", 127), Ln("bool", 1), Ln("bytes", -1),
   Ln("bytes", 3), Ln("varbytes", 64), Ln("cbytes", 127), Ln("raw", 63), Ln("str", 3), Ln("nstr", -1),
   Ln("cstr", 127), Ln("ncstr", -1), Ar("strarr", <<U(0), U(2)>>), Ar("i32arr", <<M1, E32>>), NilAr("i64arr"),
   Ar("nci32arr", <<E32>>), Ln("tagged", 0)}

\* deep nestings: few payloads around the one/two-byte boundary of a varint length
Nest == {Ln("raw", 1), Ln("raw", 62), Sc("i8", M1)}


\* Enc, tabulated once for the alphabets (TLC evaluates constant definitions once); any other op is computed
AllOps == Wide \cup Core \cup Mini \cup Nest
EncT == [op \in AllOps |-> Enc0(op)]
Enc(op) == IF op \in AllOps THEN EncT[op] ELSE Enc0(op)

\* putCompactInt32Array(nil) is an error in both encoders
EncErr(op) == op.k = "ci32arr" /\ op.n = -1

\* what a decoder must hand back for the cell (n, v, payload b); nil and empty are identified exactly
\* where the wire format does not distinguish them
Cell(n, v, b) == [n |-> n, v |-> v, b |-> b]
Norm(op) ==
  CASE op.k \in {"i8", "i16", "i32", "i64", "var", "uvar"} -> Cell(0, op.v, <<>>)
    [] op.k \in {"arrlen", "carrlen", "bool", "tagged"} -> Cell(op.n, <<>>, <<>>)
    [] op.k \in {"bytes", "varbytes"} -> Cell(op.n, <<>>, Raw(Max0(op.n)))
    [] op.k \in {"cbytes", "raw"} -> Cell(Max0(op.n), <<>>, Raw(Max0(op.n)))
    [] op.k \in {"str", "nstr", "cstr", "ncstr"} -> Cell(op.n, <<>>, Chars(Max0(op.n)))
    [] op.k = "strarr" -> IF op.n <= 0 THEN Cell(-1, <<>>, <<>>)
                          ELSE Cell(op.n, op.v, CatChars(op.v, 1))
    [] op.k \in {"i32arr", "i64arr"} -> IF op.n <= 0 THEN Cell(-1, <<>>, <<>>) ELSE Cell(op.n, op.v, <<>>)
    [] op.k \in {"ci32arr", "nci32arr"} -> Cell(op.n, op.v, <<>>)
    [] OTHER -> Cell(0, <<>>, <<>>)                                            \* push / pop produce no value

(* ------------------------------------------------------------------ sizing pass: prep_encoder.go *)
\* p = [len, stack, lens, err]; stack entries [k, start, site]; lens[site] = varintLengthField.length of
\* the push at program position `site` (the field object lives across both passes and across re-encodes:
\* op.n of a push_varlen is the stale length left there by an earlier encode)
PrepInit == [len |-> 0, stack |-> <<>>, lens |-> <<>>, err |-> FALSE]
Reserve(k, l) == IF k = "push_varlen" THEN VarSize(l) ELSE 4
PrepStep(p, op) ==
  LET site == Len(p.lens) + 1 IN
  IF p.err THEN [p EXCEPT !.lens = Append(@, 0)]
  ELSE IF IsPush(op) THEN
     LET l == IF op.k = "push_varlen" THEN op.n ELSE 0 IN
     [p EXCEPT !.len = @ + Reserve(op.k, l),
               !.stack = Append(@, [k |-> op.k, start |-> p.len, site |-> site]),
               !.lens = Append(@, l)]
  ELSE IF IsPop(op) THEN
     LET f == p.stack[Len(p.stack)]
         rest == SubSeq(p.stack, 1, Len(p.stack) - 1) IN
     IF f.k = "push_varlen" THEN                                                \* adjustLength
        LET old == VarSize(p.lens[f.site])
            new == p.len - f.start - old IN
        [p EXCEPT !.len = @ + VarSize(new) - old, !.stack = rest,
                  !.lens = Append([@ EXCEPT ![f.site] = new], 0)]
     ELSE [p EXCEPT !.stack = rest, !.lens = Append(@, 0)]
  ELSE IF EncErr(op) THEN [p EXCEPT !.err = TRUE, !.lens = Append(@, 0)]
  ELSE [p EXCEPT !.len = @ + Len(Enc(op)), !.lens = Append(@, 0)]

(* ------------------------------------------------------------------ writing pass: real_encoder.go *)
\* r = [raw, off, stack, crcs, wr, panic]; raw is allocated with the length the sizing pass computed;
\* wr = bytes written by the last step; crcs[site] = [poly, from, to] extent raw[from+1..to] of a popped CRC
Zeros(n) == [i \in 1..n |-> 0]
RealInit(total) == [raw |-> Zeros(total), off |-> 0, stack |-> <<>>, crcs |-> <<>>, wr |-> <<>>, panic |-> FALSE]
Write(raw, at, bs) == SubSeq(raw, 1, at) \o bs \o SubSeq(raw, at + Len(bs) + 1, Len(raw))   \* copy(raw[at:], bs), in bounds
Poly(k) == IF k = "push_crc_ieee" THEN "ieee" ELSE "castagnoli"
NoCrc == [poly |-> "", from |-> 0, to |-> 0]
RealStep(r, op, lens) ==
  LET site == Len(r.crcs) + 1
      r0 == [r EXCEPT !.crcs = Append(@, NoCrc), !.wr = <<>>] IN
  IF r.panic THEN r0
  ELSE IF IsPush(op) THEN
     [r0 EXCEPT !.off = @ + Reserve(op.k, lens[site]),
                !.stack = Append(@, [k |-> op.k, start |-> r.off, site |-> site])]
  ELSE IF IsPop(op) THEN
     LET f == r.stack[Len(r.stack)]
         rest == SubSeq(r.stack, 1, Len(r.stack) - 1)
         field == CASE f.k = "push_len" -> BE(I(r.off - f.start - 4), 4)        \* lengthField.run
                    [] f.k = "push_varlen" -> Var(I(lens[f.site]))              \* varintLengthField.run
                    [] OTHER -> [j \in 1..4 |-> CrcCell(f.site, j)]              \* crc32Field.run
     IN
     IF f.start + Len(field) > Len(r.raw) \/ r.off > Len(r.raw) THEN [r0 EXCEPT !.panic = TRUE, !.stack = rest]
     ELSE [r0 EXCEPT !.raw = Write(@, f.start, field), !.stack = rest, !.wr = field,
                     !.crcs = IF f.k \in {"push_crc_ieee", "push_crc_cast"}
                              THEN Append([r.crcs EXCEPT ![f.site] = [poly |-> Poly(f.k), from |-> f.start + 4, to |-> r.off]], NoCrc)
                              ELSE Append(r.crcs, NoCrc)]
  ELSE
     LET bs == Enc(op) IN
     IF r.off + Len(bs) > Len(r.raw) THEN [r0 EXCEPT !.panic = TRUE]            \* index out of range in Go
     ELSE [r0 EXCEPT !.raw = Write(@, r.off, bs), !.off = @ + Len(bs), !.wr = bs]

(* ------------------------------------------------------------------ reading pass: real_decoder.go *)
IsByte(x) == x \in 0..255
\* sign-extending big-endian read of w bytes at 0-based offset off
FromBE(raw, off, w) ==
  LET ext == IF raw[off + 1] >= 128 THEN 255 ELSE 0
      f == [i \in 1..8 |-> IF i <= 8 - w THEN ext ELSE raw[off + i - (8 - w)]] IN
  <<f[1] * 256 + f[2], f[3] * 256 + f[4], f[5] * 256 + f[6], f[7] * 256 + f[8]>>
\* small non-negative / signed integer of a value (lengths and counts only)
Small(v) == IF IsNeg(v) THEN 0 - ((65535 - v[3]) * 65536 + (65535 - v[4]) + 1) ELSE v[3] * 65536 + v[4]
FitsSmall(v) == (v[1] = 0 /\ v[2] = 0 /\ v[3] < 16384) \/ (v[1] = 65535 /\ v[2] = 65535 /\ v[3] >= 49152)

\* binary.Uvarint: group k (7 bits) lands at bit 7k
AddGroup(acc, g, k) ==
  LET sh == 7 * k
      j == 4 - (sh \div 16)
      x == g * 2 ^ (sh % 16) IN
  [i \in 1..4 |-> acc[i] + (IF i = j THEN x % 65536 ELSE IF i = j - 1 THEN x \div 65536 ELSE 0)]
RECURSIVE UVRead(_, _, _, _)
UVRead(raw, p, k, acc) ==                      \* p: 1-based position of the next byte, k: bytes read so far
  IF p > Len(raw) THEN [st |-> "short", v |-> Zero, n |-> k]
  ELSE IF k = 10 THEN [st |-> "overflow", v |-> Zero, n |-> 11]
  ELSE LET b == raw[p] IN
       IF b < 128 THEN (IF k = 9 /\ b > 1 THEN [st |-> "overflow", v |-> Zero, n |-> 10]
                        ELSE [st |-> "ok", v |-> AddGroup(acc, b, k), n |-> k + 1])
       ELSE UVRead(raw, p + 1, k + 1, AddGroup(acc, b - 128, k))

\* d = [off, stack, err]; a step returns the new d and the decoded cell
DecInit == [off |-> 0, stack |-> <<>>, err |-> ""]
NoCell == Cell(0, <<>>, <<>>)
Ret(d, c) == [d |-> d, cell |-> c]
Fail(d, raw, e) == Ret([d EXCEPT !.err = e, !.off = IF e = "insufficient" THEN Len(raw) ELSE @], NoCell)
Rem(d, raw) == Len(raw) - d.off

\* generic readers: each returns [ok, e, v, off]
GetFixed(d, raw, w) == IF Rem(d, raw) < w THEN [ok |-> FALSE, e |-> "insufficient", v |-> Zero, off |-> Len(raw)]
                       ELSE [ok |-> TRUE, e |-> "", v |-> FromBE(raw, d.off, w), off |-> d.off + w]
GetUV(d, raw) == LET u == UVRead(raw, d.off + 1, 0, Zero) IN
                 IF u.st = "short" THEN [ok |-> FALSE, e |-> "insufficient", v |-> Zero, off |-> Len(raw)]
                 ELSE IF u.st = "overflow" THEN [ok |-> FALSE, e |-> "overflow", v |-> Zero, off |-> d.off + u.n]
                 ELSE [ok |-> TRUE, e |-> "", v |-> u.v, off |-> d.off + u.n]
GetV(d, raw) == LET u == GetUV(d, raw) IN [u EXCEPT !.v = IF u.ok THEN UnZig(u.v) ELSE Zero]
\* getRawBytes(length) at offset off
RawAt(d, raw, off, n, cellN, v) ==
  IF n < 0 THEN Fail([d EXCEPT !.off = off], raw, "invalid byteslice length")
  ELSE IF n > Len(raw) - off THEN Fail(d, raw, "insufficient")
  ELSE Ret([d EXCEPT !.off = off + n], Cell(cellN, v, SubSeq(raw, off + 1, off + n)))
RECURSIVE FixedArr(_, _, _, _)
FixedArr(raw, off, w, n) == IF n = 0 THEN <<>> ELSE <<FromBE(raw, off, w)>> \o FixedArr(raw, off + w, w, n - 1)
\* getStringArray body: n strings, returns [ok, e, off, lens, chars]
RECURSIVE StrArr(_, _, _, _, _)
StrArr(raw, off, n, ls, cs) ==
  IF n = 0 THEN [ok |-> TRUE, e |-> "", off |-> off, ls |-> ls, cs |-> cs]
  ELSE IF Len(raw) - off < 2 THEN [ok |-> FALSE, e |-> "insufficient", off |-> Len(raw), ls |-> ls, cs |-> cs]
  ELSE LET lv == FromBE(raw, off, 2)
           l == Small(lv) IN
       IF l < -1 THEN [ok |-> FALSE, e |-> "invalid string length", off |-> off + 2, ls |-> ls, cs |-> cs]
       ELSE IF l > Len(raw) - off - 2 THEN [ok |-> FALSE, e |-> "insufficient", off |-> Len(raw), ls |-> ls, cs |-> cs]
       ELSE StrArr(raw, off + 2 + Max0(l), n - 1, Append(ls, U(Max0(l))), cs \o SubSeq(raw, off + 3, off + 2 + Max0(l)))

DecStep(d, op, raw, crcs) ==
  IF d.err # "" THEN Ret(d, NoCell)
  ELSE CASE op.k \in {"i8", "i16", "i32", "i64"} ->
         LET w == CASE op.k = "i8" -> 1 [] op.k = "i16" -> 2 [] op.k = "i32" -> 4 [] OTHER -> 8
             g == GetFixed(d, raw, w) IN
         IF g.ok THEN Ret([d EXCEPT !.off = g.off], Cell(0, <<g.v>>, <<>>)) ELSE Fail(d, raw, g.e)
    [] op.k = "var" -> LET g == GetV(d, raw) IN
         IF g.ok THEN Ret([d EXCEPT !.off = g.off], Cell(0, <<g.v>>, <<>>)) ELSE Fail([d EXCEPT !.off = g.off], raw, g.e)
    [] op.k = "uvar" -> LET g == GetUV(d, raw) IN
         IF g.ok THEN Ret([d EXCEPT !.off = g.off], Cell(0, <<g.v>>, <<>>)) ELSE Fail([d EXCEPT !.off = g.off], raw, g.e)
    [] op.k = "arrlen" ->                                    \* getArrayLength: count must not exceed remaining
         LET g == GetFixed(d, raw, 4) IN
         IF ~g.ok THEN Fail(d, raw, g.e)
         ELSE IF ~FitsSmall(g.v) THEN (IF IsNeg(g.v) THEN Fail([d EXCEPT !.off = g.off], raw, "invalid array length")
                                       ELSE Fail(d, raw, "insufficient"))
         ELSE IF Small(g.v) > Len(raw) - g.off THEN Fail(d, raw, "insufficient")
         ELSE IF Small(g.v) > 131070 \/ Small(g.v) < -1 THEN Fail([d EXCEPT !.off = g.off], raw, "invalid array length")
         ELSE Ret([d EXCEPT !.off = g.off], Cell(Small(g.v), <<>>, <<>>))
    [] op.k = "carrlen" ->                                   \* getCompactArrayLength: 0 (null) reads as 0; count must not exceed remaining
         LET g == GetUV(d, raw) IN
         IF ~g.ok THEN Fail([d EXCEPT !.off = g.off], raw, g.e)
         ELSE IF g.v = Zero THEN Ret([d EXCEPT !.off = g.off], Cell(0, <<>>, <<>>))
         ELSE IF ~FitsSmall(g.v) \/ Small(g.v) - 1 > Len(raw) - g.off THEN Fail(d, raw, "insufficient")
         ELSE IF Small(g.v) - 1 > 131070 THEN Fail([d EXCEPT !.off = g.off], raw, "invalid array length")
         ELSE Ret([d EXCEPT !.off = g.off], Cell(Small(g.v) - 1, <<>>, <<>>))
    [] op.k = "bool" -> LET g == GetFixed(d, raw, 1) IN
         IF ~g.ok THEN Fail(d, raw, g.e)
         ELSE IF g.v \notin {Zero, U(1)} THEN Fail([d EXCEPT !.off = g.off], raw, "invalid bool")
         ELSE Ret([d EXCEPT !.off = g.off], Cell(g.v[4], <<>>, <<>>))
    [] op.k = "tagged" -> LET g == GetUV(d, raw) IN
         IF ~g.ok THEN Fail([d EXCEPT !.off = g.off], raw, g.e)
         ELSE IF g.v # Zero THEN Fail([d EXCEPT !.off = g.off], raw, "tagged fields")
         ELSE Ret([d EXCEPT !.off = g.off], Cell(0, <<>>, <<>>))
    [] op.k = "bytes" -> LET g == GetFixed(d, raw, 4) IN
         IF ~g.ok THEN Fail(d, raw, g.e)
         ELSE IF g.v = N(1) THEN Ret([d EXCEPT !.off = g.off], Cell(-1, <<>>, <<>>))
         ELSE IF ~FitsSmall(g.v) THEN Fail([d EXCEPT !.off = g.off], raw, "out of model")
         ELSE RawAt(d, raw, g.off, Small(g.v), Small(g.v), <<>>)
    [] op.k = "varbytes" -> LET g == GetV(d, raw) IN
         IF ~g.ok THEN Fail([d EXCEPT !.off = g.off], raw, g.e)
         ELSE IF g.v = N(1) THEN Ret([d EXCEPT !.off = g.off], Cell(-1, <<>>, <<>>))
         ELSE IF ~FitsSmall(g.v) THEN Fail([d EXCEPT !.off = g.off], raw, "out of model")
         ELSE RawAt(d, raw, g.off, Small(g.v), Small(g.v), <<>>)
    [] op.k = "cbytes" -> LET g == GetUV(d, raw) IN         \* length = n - 1, no null form
         IF ~g.ok THEN Fail([d EXCEPT !.off = g.off], raw, g.e)
         ELSE IF ~FitsSmall(g.v) THEN Fail([d EXCEPT !.off = g.off], raw, "out of model")
         ELSE RawAt(d, raw, g.off, Small(g.v) - 1, Small(g.v) - 1, <<>>)
    [] op.k = "raw" -> RawAt(d, raw, d.off, op.n, op.n, <<>>)
    [] op.k \in {"str", "nstr"} ->                           \* getStringLength
         LET g == GetFixed(d, raw, 2) IN
         IF ~g.ok THEN Fail(d, raw, g.e)
         ELSE LET l == Small(g.v) IN
              IF l < -1 THEN Fail([d EXCEPT !.off = g.off], raw, "invalid string length")
              ELSE IF l > Len(raw) - g.off THEN Fail(d, raw, "insufficient")
              ELSE IF l = -1 THEN Ret([d EXCEPT !.off = g.off], Cell(IF op.k = "str" THEN 0 ELSE -1, <<>>, <<>>))
              ELSE Ret([d EXCEPT !.off = g.off + l], Cell(l, <<>>, SubSeq(raw, g.off + 1, g.off + l)))
    [] op.k \in {"cstr", "ncstr"} ->                         \* getCompactLength: 0 = null, length - 1 must not exceed remaining
         LET g == GetUV(d, raw) IN
         IF ~g.ok THEN Fail([d EXCEPT !.off = g.off], raw, g.e)
         ELSE IF g.v = Zero THEN (IF op.k = "ncstr" THEN Ret([d EXCEPT !.off = g.off], Cell(-1, <<>>, <<>>))
                                  ELSE Fail([d EXCEPT !.off = g.off], raw, "invalid string length"))
         ELSE IF ~FitsSmall(g.v) \/ Small(g.v) - 1 > Len(raw) - g.off THEN Fail(d, raw, "insufficient")
         ELSE LET l == Small(g.v) - 1 IN
              Ret([d EXCEPT !.off = g.off + l], Cell(l, <<>>, SubSeq(raw, g.off + 1, g.off + l)))
    [] op.k = "strarr" -> LET g == GetFixed(d, raw, 4) IN
         IF ~g.ok THEN Fail(d, raw, g.e)
         ELSE IF ~FitsSmall(g.v) THEN Fail([d EXCEPT !.off = g.off], raw, "out of model")
         ELSE IF Small(g.v) \in {0, -1} THEN Ret([d EXCEPT !.off = g.off], Cell(-1, <<>>, <<>>))   \* count read as signed, -1 = null
         ELSE IF Small(g.v) < 0 THEN Fail([d EXCEPT !.off = g.off], raw, "invalid array length")
         ELSE IF Small(g.v) > (Len(raw) - g.off) \div 2 THEN Fail(d, raw, "insufficient")         \* a string takes >= 2 bytes
         ELSE LET s == StrArr(raw, g.off, Small(g.v), <<>>, <<>>) IN
              IF s.ok THEN Ret([d EXCEPT !.off = s.off], Cell(Small(g.v), s.ls, s.cs))
              ELSE Fail([d EXCEPT !.off = s.off], raw, s.e)
    [] op.k \in {"i32arr", "i64arr"} ->
         LET w == IF op.k = "i32arr" THEN 4 ELSE 8
             g == GetFixed(d, raw, 4) IN
         IF ~g.ok THEN Fail(d, raw, g.e)
         ELSE IF ~FitsSmall(g.v) THEN Fail([d EXCEPT !.off = g.off], raw, "out of model")
         ELSE LET n == Small(g.v) IN
              IF Len(raw) - g.off < w * n THEN Fail(d, raw, "insufficient")
              ELSE IF n = 0 THEN Ret([d EXCEPT !.off = g.off], Cell(-1, <<>>, <<>>))
              ELSE IF n < 0 THEN Fail([d EXCEPT !.off = g.off], raw, "invalid array length")
              ELSE Ret([d EXCEPT !.off = g.off + w * n], Cell(n, FixedArr(raw, g.off, w, n), <<>>))
    [] op.k \in {"ci32arr", "nci32arr"} ->                   \* count must not exceed remaining / 4
         LET g == GetUV(d, raw) IN
         IF ~g.ok THEN Fail([d EXCEPT !.off = g.off], raw, g.e)
         ELSE IF g.v = Zero THEN Ret([d EXCEPT !.off = g.off], Cell(-1, <<>>, <<>>))
         ELSE IF ~FitsSmall(g.v) \/ Small(g.v) - 1 > (Len(raw) - g.off) \div 4 THEN Fail(d, raw, "insufficient")
         ELSE LET n == Small(g.v) - 1 IN
              Ret([d EXCEPT !.off = g.off + 4 * n], Cell(n, FixedArr(raw, g.off, 4, n), <<>>))
    [] op.k = "push_len" ->                                  \* lengthField.decode
         LET g == GetFixed(d, raw, 4) IN
         IF ~g.ok THEN Fail(d, raw, g.e)
         ELSE IF ~FitsSmall(g.v) THEN Fail([d EXCEPT !.off = g.off], raw, "out of model")
         ELSE IF Small(g.v) > Len(raw) - g.off THEN Fail([d EXCEPT !.off = g.off], raw, "insufficient field")
         ELSE Ret([d EXCEPT !.off = g.off, !.stack = Append(@, [k |-> op.k, start |-> d.off, length |-> Small(g.v)])], NoCell)
    [] op.k = "push_varlen" ->                               \* varintLengthField.decode
         LET g == GetV(d, raw) IN
         IF ~g.ok THEN Fail([d EXCEPT !.off = g.off], raw, g.e)
         ELSE IF ~FitsSmall(g.v) THEN Fail([d EXCEPT !.off = g.off], raw, "out of model")
         ELSE Ret([d EXCEPT !.off = g.off, !.stack = Append(@, [k |-> op.k, start |-> d.off, length |-> Small(g.v)])], NoCell)
    [] op.k \in {"push_crc_ieee", "push_crc_cast"} ->
         IF Rem(d, raw) < 4 THEN Fail(d, raw, "insufficient")
         ELSE Ret([d EXCEPT !.off = @ + 4, !.stack = Append(@, [k |-> op.k, start |-> d.off, length |-> 0])], NoCell)
    [] op.k = "pop" ->
         LET f == d.stack[Len(d.stack)]
             d1 == [d EXCEPT !.stack = SubSeq(@, 1, Len(@) - 1)] IN
         CASE f.k = "push_len" -> IF d.off - f.start - 4 = f.length THEN Ret(d1, NoCell)
                                  ELSE Ret([d1 EXCEPT !.err = "length field invalid"], NoCell)
           [] f.k = "push_varlen" -> IF d.off - f.start - VarSize(f.length) = f.length THEN Ret(d1, NoCell)
                                     ELSE Ret([d1 EXCEPT !.err = "length field invalid"], NoCell)
           [] OTHER ->                                        \* crc32Field.check over raw[start+4 : off]
              LET c == raw[f.start + 1] IN
              IF /\ IsCrcCell(c)
                 /\ \A j \in 1..4 : raw[f.start + j] = CrcCell(CrcSite(c), j)
                 /\ crcs[CrcSite(c)] = [poly |-> Poly(f.k), from |-> f.start + 4, to |-> d.off]
              THEN Ret(d1, NoCell)
              ELSE Ret([d1 EXCEPT !.err = "crc mismatch"], NoCell)

(* ------------------------------------------------------------------ whole runs (folds of the step functions) *)
RECURSIVE PrepRun(_, _, _, _)
PrepRun(p, ops, i, lens) ==          \* returns [p, plens]: plens[i] = length after step i
  IF i > Len(ops) THEN [p |-> p, plens |-> lens]
  ELSE LET q == PrepStep(p, ops[i]) IN PrepRun(q, ops, i + 1, Append(lens, q.len))
RECURSIVE RealRun(_, _, _, _, _, _)
RealRun(r, ops, lens, i, offs, wrs) ==   \* returns [r, offs, wrs]
  IF i > Len(ops) THEN [r |-> r, offs |-> offs, wrs |-> wrs]
  ELSE LET q == RealStep(r, ops[i], lens) IN RealRun(q, ops, lens, i + 1, Append(offs, q.off), Append(wrs, q.wr))
RECURSIVE DecRun(_, _, _, _, _, _, _)
DecRun(d, ops, raw, crcs, i, tape, offs) ==
  IF i > Len(ops) THEN [d |-> d, tape |-> tape, offs |-> offs]
  ELSE LET q == DecStep(d, ops[i], raw, crcs) IN DecRun(q.d, ops, raw, crcs, i + 1, Append(tape, q.cell), Append(offs, q.d.off))

\* depth after each step; position of the push matched by the pop at position i
RECURSIVE Depths(_, _, _, _)
Depths(ops, i, cur, acc) ==
  IF i > Len(ops) THEN acc
  ELSE LET nd == IF IsPush(ops[i]) THEN cur + 1 ELSE IF IsPop(ops[i]) THEN cur - 1 ELSE cur IN
       Depths(ops, i + 1, nd, Append(acc, nd))
DepthsOf(ops) == Depths(ops, 1, 0, <<>>)
PushOf(ops, i) == LET dp == DepthsOf(ops) IN
  CHOOSE j \in 1..(i - 1) : /\ IsPush(ops[j]) /\ dp[j] = dp[i] + 1
                            /\ \A m \in (j + 1)..(i - 1) : dp[m] >= dp[j]
Balanced(ops) == LET dp == DepthsOf(ops) IN
  /\ \A i \in 1..Len(ops) : dp[i] >= 0
  /\ (Len(ops) > 0 => dp[Len(ops)] = 0)

\* position of the pop that closes the push at position i
MatchPop(ops, i) == LET dp == DepthsOf(ops) IN
  CHOOSE m \in (i + 1)..Len(ops) : dp[m] = dp[i] - 1 /\ \A x \in (i + 1)..(m - 1) : dp[x] >= dp[i]
\* the bytes the protocol prescribes for ops[i..j]: every primitive as Enc says; a length field holds the
\* number of bytes between it and its pop (INT32, or zig-zag varint), a CRC field covers exactly those bytes
RECURSIVE Ref(_, _, _)
Ref(ops, i, j) ==
  IF i > j THEN <<>>
  ELSE IF IsPush(ops[i]) THEN
     LET m == MatchPop(ops, i)
         body == Ref(ops, i + 1, m - 1)
         field == CASE ops[i].k = "push_len" -> BE(I(Len(body)), 4)
                    [] ops[i].k = "push_varlen" -> Var(I(Len(body)))
                    [] OTHER -> [x \in 1..4 |-> CrcCell(i, x)] IN
     field \o body \o Ref(ops, m + 1, j)
  ELSE Enc(ops[i]) \o Ref(ops, i + 1, j)

\* getArrayLength and getCompactArrayLength refuse a count larger than the bytes that follow: the domain of an
\* (COMPACT_)ARRAY count is "followed by that many elements of at least one byte each"
InDomain(ops, offs, total) == \A i \in 1..Len(ops) : (ops[i].k \in {"arrlen", "carrlen"}) => ops[i].n <= total - offs[i]
=============================================================================
