----------------------------- MODULE ConsumerLog -----------------------------
(* Log-layout machine for the consumer properties (role 2 + oracle sanity): builds every
   partition log of up to MaxOff offsets cut into up to MaxBatches batches, over the batch
   formats Formats (record batch v2, legacy v0/v1, compressed wrappers v0w/v1w), with
   compaction holes, transactions of the producer ids Pids (committed / aborted / left open),
   non-transactional data in between, and control batches. Each complete log is emitted as one
   JSON case; harness/inpkg/cons_driver_test.go serves it to a real PartitionConsumer.       *)
EXTENDS ConsumerOracle, TLC, Json

CONSTANTS MaxOff, MaxBatches, Formats, Pids, WithTxn, WithHoles, EmitCases

VARIABLES log, next, open   \* open: set of pids with an open transaction
vars == <<log, next, open>>

Init == log = <<>> /\ next = 0 /\ open = {}

Batch(f, offs, pid, txn, ctl) == [fmt |-> f, offs |-> offs, pid |-> pid, txn |-> txn, ctl |-> ctl]
Dense(a, n) == [k \in 1..n |-> a + k - 1]
\* n records starting at a, the record after the first one compacted away (a hole inside the batch)
Holey(a, n) == [k \in 1..n |-> IF k = 1 THEN a ELSE a + k]

AddPlain(f, n) ==
  /\ next + n <= MaxOff
  /\ log' = Append(log, Batch(f, Dense(next, n), -1, FALSE, ""))
  /\ next' = next + n /\ UNCHANGED open
AddHoley(f, n) ==
  /\ WithHoles /\ n >= 2 /\ next + n + 1 <= MaxOff /\ f \in {"v2", "v0", "v1", "v0w", "v1w"}
  /\ log' = Append(log, Batch(f, Holey(next, n), -1, FALSE, ""))
  /\ next' = next + n + 1 /\ UNCHANGED open
\* a gap between batches (a whole batch compacted away)
SkipOffset ==
  /\ WithHoles /\ next + 1 < MaxOff /\ log # <<>>
  /\ next' = next + 1 /\ UNCHANGED <<log, open>>
AddTxn(p, n) ==
  /\ WithTxn /\ "v2" \in Formats /\ next + n <= MaxOff
  /\ log' = Append(log, Batch("v2", Dense(next, n), p, TRUE, ""))
  /\ next' = next + n /\ open' = open \cup {p}
AddMarker(p, kind) ==
  /\ WithTxn /\ p \in open /\ next + 1 <= MaxOff
  /\ log' = Append(log, Batch("v2", <<next>>, p, FALSE, kind))
  /\ next' = next + 1 /\ open' = open \ {p}

Next ==
  /\ Len(log) < MaxBatches
  /\ \/ \E f \in Formats, n \in 1..3 : AddPlain(f, n) \/ AddHoley(f, n)
     \/ \E p \in Pids, n \in 1..2 : AddTxn(p, n)
     \/ \E p \in Pids, kind \in {"commit", "abort"} : AddMarker(p, kind)
Spec == Init /\ [][Next \/ SkipOffset]_vars

Sane == OracleSane(log)
Complete == Len(log) = MaxBatches \/ next >= MaxOff
BatchJson(b) == [fmt |-> b.fmt, offs |-> b.offs, pid |-> b.pid, txn |-> b.txn, ctl |-> b.ctl]
Emit == (EmitCases /\ Complete /\ log # <<>>) => PrintT(<<"CASE", ToJson([k \in 1..Len(log) |-> BatchJson(log[k])])>>)
=============================================================================
