-------------------------------- MODULE Admin --------------------------------
(* C19, controller-bound half: one controller-bound ClusterAdmin operation
   (CreateTopic / DeleteTopic / CreatePartitions / AlterPartitionReassignments,
   admin.go 196-522) as a state machine, together with its environment
   (the controller may step down and another broker takes over; the controller
   acknowledges, refuses with an error code, answers without the topic entry, or
   drops the connection).

   The model is implementation-shaped: one action per step of
   clusterAdmin.retryOnError (admin.go 180-194) and of the closure it runs:

     LoopCheck   `for attempt := 0; attempt < ca.conf.Admin.Retry.Max; attempt++`
     (send)      `b, err := ca.Controller()` - the cached controller - and b.<Request>
     Answer      the environment: what the receiving broker does with the request
     Handle      the response handling of the operation, including
                 `ca.refreshController()` on NOT_CONTROLLER and the return value
     Backoff     `time.Sleep(Backoff); continue`

   The reference variant models admin.go as it is in /repo now (after the fix: commits):
     Budget = "retries"  a first attempt, then up to Admin.Retry.Max retries
     AlterQuirks = FALSE AlterPartitionReassignments returns a top-level NOT_CONTROLLER as a
                         KError after refreshing the controller (retried like the other three)
                         and reports every other top-level code as an error
   The defects the pinned tree had are kept as switchable quirks (legacy variant, documents
   known_findings F-C19-*, status fixed):
     Budget = "pinned"   the loop ran Retry.Max attempts, i.e. NONE when Retry.Max = 0,
                         and then returned the zero error value = success
     AlterQuirks = TRUE  AlterPartitionReassignments wrapped every error into
                         ErrReassignPartitions before retryOnError saw it (no refresh, no retry
                         on NOT_CONTROLLER) and tested the top-level code with `> 0` (UNKNOWN -1
                         was success)
     NoRefresh           (mutant, negative control of the clauses) refreshController is a no-op
   Broker id 0 is an ordinary broker (initial controller, move target).

   The clauses of the property are the operators of AdminOracle applied to the history
   variables att (requests as the brokers saw them) and res.                          *)
EXTENDS AdminOracle, TLC, Json

CONSTANTS Brokers,      \* broker ids
          MaxRetry,     \* Admin.Retry.Max ranges over 0..MaxRetry
          InitCtls,     \* possible controllers when the client is created
          ErrCodes,     \* error codes a controller may answer instead of success
          Kvs,          \* op -> set of Kafka release indexes (AdminOracle) the op is run with
          Budget, AlterQuirks, NoRefresh,
          Src,          \* tag of the cfg that emitted a case ("ref": pred is what the code in /repo should do)
          EmitCases

VARIABLES op, kv, max, init,      \* the case (chosen in Init)
          ctl,                    \* true controller
          cached,                 \* client.controllerID as the admin sees it
          pc, attempt, lastErr,   \* retryOnError: control state, loop counter, `err`
          pending,                \* the answer travelling back to the admin
          script,                 \* history: what the environment did at each request
          att, res                \* history: requests as seen by the brokers; returned value

vars == <<op, kv, max, init, ctl, cached, pc, attempt, lastErr, pending, script, att, res>>

Nil == [cls |-> "nil", code |-> 0]
NoAns == [ans |-> "-", code |-> 0, place |-> "-"]
Limit == IF Budget = "pinned" THEN max ELSE max + 1

KvQuick == [CreateTopic |-> {1, 2, 3, 5}, DeleteTopic |-> {1, 2, 5}, CreatePartitions |-> {3, 5},
            AlterPartitionReassignments |-> {5}]
KvFull == [CreateTopic |-> {0, 1, 2, 3, 4, 5}, DeleteTopic |-> {0, 1, 2, 3, 4, 5}, CreatePartitions |-> {3, 4, 5},
           AlterPartitionReassignments |-> {5}]
ErrQuick == {-1, 7, 36}
ErrThorough == {-1, 7, 29, 36, 37}
ErrAll == (-1..88) \ {0, NotController}      \* every code of errors.go "in place of success"
KvOne == [CreateTopic |-> {3}, DeleteTopic |-> {2}, CreatePartitions |-> {3}, AlterPartitionReassignments |-> {5}]

\* version selection of admin.go (lines 214-219, 404-406; the other two always send v0)
ReqVersion(o, k) ==
  CASE o = "CreateTopic" -> (IF k >= 3 THEN 2 ELSE IF k >= 2 THEN 1 ELSE 0)
    [] o = "DeleteTopic" -> (IF k >= 2 THEN 1 ELSE 0)
    [] OTHER -> 0

TypedClsOf(o) ==
  CASE o = "CreateTopic" -> "topicerr" [] o = "DeleteTopic" -> "kerr" [] o = "CreatePartitions" -> "tperr" [] OTHER -> "agg"

Init ==
  /\ op \in CtlOps
  /\ kv \in Kvs[op]
  /\ max \in 0..MaxRetry
  /\ init \in InitCtls
  /\ ctl = init /\ cached = init
  /\ pc = "loop" /\ attempt = 0 /\ lastErr = Nil /\ pending = NoAns
  /\ script = <<>> /\ att = <<>> /\ res = [cls |-> "-", code |-> 0]

LoopCheck ==
  /\ pc = "loop"
  /\ IF attempt < Limit
     THEN pc' = "send" /\ UNCHANGED res
     ELSE pc' = "done" /\ res' = lastErr       \* `return err` after the loop
  /\ UNCHANGED <<op, kv, max, init, ctl, cached, attempt, lastErr, pending, script, att>>

\* the environment: the request reaches broker `cached`
Observe(ans, code, place, newctl) ==
  /\ att' = Append(att, [b |-> cached, ctl |-> ctl, after |-> newctl, api |-> ApiOf[op], v |-> ReqVersion(op, kv),
                         ans |-> ans, code |-> code])
  /\ pending' = [ans |-> ans, code |-> code, place |-> place]
  /\ ctl' = newctl
  /\ pc' = "resp"
  /\ UNCHANGED <<op, kv, max, init, cached, attempt, lastErr, res>>

Answer ==
  /\ pc = "send"
  /\ IF cached # ctl
     THEN \* a broker that is not the controller can only refuse
          /\ script' = Append(script, <<"nc", ctl, "-">>)
          /\ Observe("nc", NotController, "-", ctl)
     ELSE \/ /\ script' = Append(script, <<"ack", 0, "-">>)
             /\ Observe("ack", 0, "-", ctl)
          \/ \E c \in ErrCodes, pl \in (IF op = "AlterPartitionReassignments" THEN {"top", "part"} ELSE {"-"}) :
             /\ script' = Append(script, <<"err", c, pl>>)
             /\ Observe("err", c, pl, ctl)
          \/ /\ op # "AlterPartitionReassignments"      \* its response has no per-topic presence to miss
             /\ script' = Append(script, <<"inc", 0, "-">>)
             /\ Observe("inc", 0, "-", ctl)
          \/ /\ script' = Append(script, <<"conn", 0, "-">>)
             /\ Observe("conn", 0, "-", ctl)
          \/ \E b \in Brokers \ {cached} :               \* the controller stepped down, b took over
             /\ script' = Append(script, <<"nc", b, "-">>)
             /\ Observe("nc", NotController, "-", b)

Return(r) == pc' = "done" /\ res' = r /\ UNCHANGED <<cached, attempt, lastErr>>

Handle ==
  /\ pc = "resp"
  /\ pending' = NoAns
  /\ UNCHANGED <<op, kv, max, init, ctl, script, att>>
  /\ CASE pending.ans = "ack" -> Return(Nil)
       [] pending.ans = "conn" ->
            IF op = "AlterPartitionReassignments"
            THEN Return([cls |-> "agg", code |-> 0])               \* `errs = append(errs, err)`: wrapped
            ELSE Return([cls |-> "other", code |-> 0])
       [] pending.ans = "inc" -> Return([cls |-> "incomplete", code |-> 0])
       [] pending.ans = "err" ->
            IF op = "AlterPartitionReassignments"
            THEN IF AlterQuirks /\ pending.place = "top" /\ pending.code <= 0
                 THEN Return(Nil)                                   \* `if rsp.ErrorCode > 0`
                 ELSE Return([cls |-> "agg", code |-> 0])
            ELSE Return([cls |-> TypedClsOf(op), code |-> pending.code])
       [] pending.ans = "nc" ->
            IF op = "AlterPartitionReassignments" /\ AlterQuirks
            THEN Return([cls |-> "agg", code |-> 0])               \* wrapped: not retryable, no refresh
            ELSE /\ cached' = IF NoRefresh THEN cached ELSE ctl     \* ca.refreshController()
                 /\ lastErr' = [cls |-> (IF op = "AlterPartitionReassignments" THEN "kerr" ELSE TypedClsOf(op)),
                                 code |-> NotController]
                 /\ pc' = "backoff"
                 /\ UNCHANGED <<attempt, res>>

Backoff ==
  /\ pc = "backoff"
  /\ attempt' = attempt + 1
  /\ pc' = "loop"
  /\ UNCHANGED <<op, kv, max, init, ctl, cached, lastErr, pending, script, att, res>>

Next == LoopCheck \/ Answer \/ Handle \/ Backoff
Spec == Init /\ [][Next]_vars

-----------------------------------------------------------------------------
Case == [op |-> op, kv |-> kv, max |-> max, init |-> init, script |-> script]

TypeOK ==
  /\ pc \in {"loop", "send", "resp", "backoff", "done"}
  /\ attempt \in 0..(MaxRetry + 1) /\ Len(att) = Len(script) /\ Len(att) <= MaxRetry + 1
  /\ ctl \in Brokers /\ cached \in Brokers

\* the clauses, on every reachable state
ReqClauses == att # <<>> => CtlReqViol(Case, att) = {}
RetViolNow == IF pc = "done" THEN CtlRetViol(Case, att, res) ELSE {}
RetClauses == RetViolNow = {}

(* What the pinned tree got wrong before the fix: commits, by cause (the signatures of the
   F-C19-* entries of known_findings.json); with the quirks switched on the model violates
   exactly these. *)
KnownQuirk ==
  {c \in RetViolNow :
     \/ c = "success_only_if_acked" /\ max = 0 /\ att = <<>>
     \/ /\ op = "AlterPartitionReassignments"
        /\ \/ c \in {"not_controller_is_retried", "succeeds_when_acked_within_budget"} /\ Len(att) = 1 /\ att[1].ans = "nc"
           \/ c = "success_only_if_acked" /\ att[Len(att)].ans = "err" /\ att[Len(att)].code <= 0}
RetClausesOrKnownQuirk == RetViolNow \subseteq KnownQuirk

\* role 2: every complete behaviour is one case for the replay on the real ClusterAdmin;
\* pred = what this model says the code does (compared softly: drift, never a verdict)
Emit ==
  (EmitCases /\ pc = "done") =>
     PrintT(<<"CASE", ToJson([fam |-> "ctl", src |-> Src, op |-> op, kv |-> kv, max |-> max, init |-> init, script |-> script,
                              pred |-> [att |-> Len(att), cls |-> res.cls, code |-> res.code]])>>)
=============================================================================
