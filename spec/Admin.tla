-------------------------------- MODULE Admin --------------------------------
(* C19, controller-bound half: one controller-bound ClusterAdmin operation
   (CreateTopic / DeleteTopic / CreatePartitions / AlterPartitionReassignments,
   admin.go 196-522) as a state machine, together with its environment
   (the controller may step down and another broker takes over, at once or after an
   election during which metadata names no controller; the controller acknowledges, refuses with an error code, answers without the topic entry, or
   drops the connection).

   The model is implementation-shaped: one action per step of
   clusterAdmin.retryOnError (admin.go 180-194) and of the closure it runs:

     LoopCheck   `for attempt := 0; attempt < ca.conf.Admin.Retry.Max; attempt++`
     Lookup      `b, err := ca.Controller()` - the cached controller, else one metadata refresh
                 (which may name nobody while an election is in progress: local error)
     (send)      b.<Request>
     Answer      the environment: what the receiving broker does with the request
     Handle      the response handling of the operation, including
                 `ca.refreshController()` on NOT_CONTROLLER and the return value
     Backoff     `time.Sleep(Backoff); continue`

   The reference variant models admin.go as it is in /repo now (after the fix: commits):
     Budget = "retries"  a first attempt, then up to Admin.Retry.Max retries
     AlterQuirks = FALSE AlterPartitionReassignments returns a top-level NOT_CONTROLLER as a
                         KError after refreshing the controller (retried like the other three)
                         and reports every other top-level code as an error
   The defects the pinned tree had are kept as switchable quirks (legacy variant, documents
   known_findings F-C19-*, status fixed):
     Budget = "pinned"   the loop ran Retry.Max attempts, i.e. NONE when Retry.Max = 0,
                         and then returned the zero error value = success
     AlterQuirks = TRUE  AlterPartitionReassignments wrapped every error into
                         ErrReassignPartitions before retryOnError saw it (no refresh, no retry
                         on NOT_CONTROLLER) and tested the top-level code with `> 0` (UNKNOWN -1
                         was success)
     NoRefresh           (mutant, negative control of the clauses) refreshController is a no-op
   Broker id 0 is an ordinary broker (initial controller, move target).

   The clauses of the property are the operators of AdminOracle applied to the history
   variables att (requests as the brokers saw them) and res.                          *)
EXTENDS AdminOracle, TLC, Json

CONSTANTS Brokers,      \* broker ids
          MaxRetry,     \* Admin.Retry.Max ranges over 0..MaxRetry
          InitCtls,     \* possible controllers when the client is created
          ErrCodes,     \* error codes a controller may answer instead of success
          Kvs,          \* op -> set of Kafka release indexes (AdminOracle) the op is run with
          Pres,         \* what the client knows when the operation starts: "cached" (the controller),
                        \* "empty" (a refresh during an election wiped it; metadata names it again),
                        \* "none" (wiped, and the next metadata answer still names no controller)
          NoneKs,       \* after a step-down the next k metadata answers name NO controller (-1), k in NoneKs
                        \* (at most once per operation); {} = metadata always names the controller
          Budget, AlterQuirks, NoRefresh,
          Src,          \* tag of the cfg that emitted a case ("ref": pred is what the code in /repo should do)
          EmitCases

VARIABLES op, kv, max, init, pre, \* the case (chosen in Init)
          ctl,                    \* true controller
          cached,                 \* client.controllerID as the admin sees it (NoCtl: brokers[controllerID] = nil)
          noneLeft, usedNone,     \* environment: metadata answers still to come that name no controller
          pc, attempt, lastErr,   \* retryOnError: control state, loop counter, `err`
          pending,                \* the answer travelling back to the admin
          script,                 \* history: what the environment did at each request
          att, metas, res         \* history: requests as seen by the brokers; controller named by the metadata
                                  \* answers since the last request; returned value

vars == <<op, kv, max, init, pre, ctl, cached, noneLeft, usedNone, pc, attempt, lastErr, pending, script, att, metas, res>>

Nil == [cls |-> "nil", code |-> 0]
NoAns == [ans |-> "-", code |-> 0, place |-> "-"]
Limit == IF Budget = "pinned" THEN max ELSE max + 1

KvQuick == [CreateTopic |-> {1, 2, 3, 5}, DeleteTopic |-> {1, 2, 5}, CreatePartitions |-> {3, 5},
            AlterPartitionReassignments |-> {5}]
KvFull == [CreateTopic |-> {0, 1, 2, 3, 4, 5}, DeleteTopic |-> {0, 1, 2, 3, 4, 5}, CreatePartitions |-> {3, 4, 5},
           AlterPartitionReassignments |-> {5}]
ErrQuick == {-1, 7, 36}
ErrOne == {36}
ErrThorough == {-1, 7, 29, 36, 37}
ErrAll == (-1..88) \ {0, NotController}      \* every code of errors.go "in place of success"
KvOne == [CreateTopic |-> {3}, DeleteTopic |-> {2}, CreatePartitions |-> {3}, AlterPartitionReassignments |-> {5}]
NoNone == {}

\* version selection of admin.go (lines 214-219, 404-406; the other two always send v0)
ReqVersion(o, k) ==
  CASE o = "CreateTopic" -> (IF k >= 3 THEN 2 ELSE IF k >= 2 THEN 1 ELSE 0)
    [] o = "DeleteTopic" -> (IF k >= 2 THEN 1 ELSE 0)
    [] OTHER -> 0

TypedClsOf(o) ==
  CASE o = "CreateTopic" -> "topicerr" [] o = "DeleteTopic" -> "kerr" [] o = "CreatePartitions" -> "tperr" [] OTHER -> "agg"

Init ==
  /\ op \in CtlOps
  /\ kv \in Kvs[op]
  /\ max \in 0..MaxRetry
  /\ init \in InitCtls
  /\ pre \in Pres
  /\ ctl = init
  /\ cached = (IF pre = "cached" THEN init ELSE NoCtl)
  /\ noneLeft = (IF pre = "none" THEN 1 ELSE 0) /\ usedNone = FALSE
  /\ pc = "loop" /\ attempt = 0 /\ lastErr = Nil /\ pending = NoAns
  /\ script = <<>> /\ att = <<>> /\ metas = <<>> /\ res = [cls |-> "-", code |-> 0]

\* one metadata request (client.refreshMetadata -> updateMetadata): the answer names the true
\* controller, or nobody while an election is in progress
Served == IF noneLeft > 0 THEN NoCtl ELSE ctl
Fetch ==
  /\ cached' = Served
  /\ metas' = Append(metas, Served)
  /\ noneLeft' = (IF noneLeft > 0 THEN noneLeft - 1 ELSE 0)

LoopCheck ==
  /\ pc = "loop"
  /\ IF attempt < Limit
     THEN pc' = "lookup" /\ UNCHANGED res
     ELSE pc' = "done" /\ res' = lastErr       \* `return err` after the loop
  /\ UNCHANGED <<op, kv, max, init, pre, ctl, cached, noneLeft, usedNone, attempt, lastErr, pending, script, att, metas>>

Return(r) == pc' = "done" /\ res' = r /\ UNCHANGED <<attempt, lastErr>>

\* `b, err := ca.Controller()` (client.go Controller): the cached controller, else one metadata
\* refresh; still nobody => ErrControllerNotAvailable, which the closure returns and
\* isErrNoController does not recognise: the operation ends with that local error
Lookup ==
  /\ pc = "lookup"
  /\ UNCHANGED <<op, kv, max, init, pre, ctl, usedNone, pending, script, att>>
  /\ IF cached # NoCtl
     THEN pc' = "send" /\ UNCHANGED <<cached, metas, noneLeft, attempt, lastErr, res>>
     ELSE /\ Fetch
          /\ IF Served # NoCtl
             THEN pc' = "send" /\ UNCHANGED <<attempt, lastErr, res>>
             ELSE Return([cls |-> "nocontroller", code |-> 0])

\* the environment: the request reaches broker `cached`
Observe(ans, code, place, newctl, k) ==
  /\ att' = Append(att, [b |-> cached, ctl |-> ctl, after |-> newctl, api |-> ApiOf[op], v |-> ReqVersion(op, kv),
                         ans |-> ans, code |-> code])
  /\ script' = Append(script, <<ans, (IF ans = "nc" THEN newctl ELSE code), place, k>>)
  /\ pending' = [ans |-> ans, code |-> code, place |-> place]
  /\ ctl' = newctl
  /\ noneLeft' = (IF k > 0 THEN k ELSE noneLeft) /\ usedNone' = (usedNone \/ k > 0)
  /\ metas' = <<>>
  /\ pc' = "resp"
  /\ UNCHANGED <<op, kv, max, init, pre, cached, attempt, lastErr, res>>

Answer ==
  /\ pc = "send"
  /\ IF cached # ctl
     THEN \* a broker that is not the controller can only refuse
          Observe("nc", NotController, "-", ctl, 0)
     ELSE \/ Observe("ack", 0, "-", ctl, 0)
          \/ \E c \in ErrCodes, pl \in (IF op = "AlterPartitionReassignments" THEN {"top", "part"} ELSE {"-"}) :
             Observe("err", c, pl, ctl, 0)
          \/ /\ op # "AlterPartitionReassignments"      \* its response has no per-topic presence to miss
             /\ Observe("inc", 0, "-", ctl, 0)
          \/ Observe("conn", 0, "-", ctl, 0)
          \/ \E b \in Brokers \ {cached}, k \in ({0} \cup (IF usedNone THEN {} ELSE NoneKs)) :
             \* the controller stepped down, b takes over - at once (k = 0) or after an election
             \* during which k metadata answers name nobody
             Observe("nc", NotController, "-", b, k)

Handle ==
  /\ pc = "resp"
  /\ pending' = NoAns
  /\ UNCHANGED <<op, kv, max, init, pre, ctl, usedNone, script, att>>
  /\ CASE pending.ans = "ack" -> Return(Nil) /\ UNCHANGED <<cached, metas, noneLeft>>
       [] pending.ans = "conn" ->
            /\ UNCHANGED <<cached, metas, noneLeft>>
            /\ IF op = "AlterPartitionReassignments"
               THEN Return([cls |-> "agg", code |-> 0])               \* `errs = append(errs, err)`: wrapped
               ELSE Return([cls |-> "other", code |-> 0])
       [] pending.ans = "inc" -> Return([cls |-> "incomplete", code |-> 0]) /\ UNCHANGED <<cached, metas, noneLeft>>
       [] pending.ans = "err" ->
            /\ UNCHANGED <<cached, metas, noneLeft>>
            /\ IF op = "AlterPartitionReassignments"
               THEN IF AlterQuirks /\ pending.place = "top" /\ pending.code <= 0
                    THEN Return(Nil)                                   \* `if rsp.ErrorCode > 0`
                    ELSE Return([cls |-> "agg", code |-> 0])
               ELSE Return([cls |-> TypedClsOf(op), code |-> pending.code])
       [] pending.ans = "nc" ->
            IF op = "AlterPartitionReassignments" /\ AlterQuirks
            THEN Return([cls |-> "agg", code |-> 0]) /\ UNCHANGED <<cached, metas, noneLeft>>  \* wrapped: not retryable, no refresh
            ELSE \* `_, _ = ca.refreshController()`: one metadata refresh, its outcome ignored
                 /\ IF NoRefresh THEN UNCHANGED <<cached, metas, noneLeft>> ELSE Fetch
                 /\ lastErr' = [cls |-> (IF op = "AlterPartitionReassignments" THEN "kerr" ELSE TypedClsOf(op)),
                                 code |-> NotController]
                 /\ pc' = "backoff"
                 /\ UNCHANGED <<attempt, res>>

Backoff ==
  /\ pc = "backoff"
  /\ attempt' = attempt + 1
  /\ pc' = "loop"
  /\ UNCHANGED <<op, kv, max, init, pre, ctl, cached, noneLeft, usedNone, lastErr, pending, script, att, metas, res>>

Next == LoopCheck \/ Lookup \/ Answer \/ Handle \/ Backoff
Spec == Init /\ [][Next]_vars

-----------------------------------------------------------------------------
Case == [op |-> op, kv |-> kv, max |-> max, init |-> init, pre |-> pre, script |-> script]

TypeOK ==
  /\ pc \in {"loop", "lookup", "send", "resp", "backoff", "done"}
  /\ attempt \in 0..(MaxRetry + 1) /\ Len(att) = Len(script) /\ Len(att) <= MaxRetry + 1
  /\ ctl \in Brokers /\ cached \in Brokers \cup {NoCtl} /\ noneLeft \in 0..2

\* the clauses, on every reachable state
ReqClauses == att # <<>> => CtlReqViol(Case, att) = {}
RetViolNow == IF pc = "done" THEN CtlRetViol(Case, att, res, metas) ELSE {}
RetClauses == RetViolNow = {}

(* What the pinned tree got wrong before the fix: commits, by cause (the signatures of the
   F-C19-* entries of known_findings.json); with the quirks switched on the model violates
   exactly these. *)
KnownQuirk ==
  {c \in RetViolNow :
     \/ c = "success_only_if_acked" /\ max = 0 /\ att = <<>>
     \/ /\ op = "AlterPartitionReassignments"
        /\ \/ c \in {"not_controller_is_retried", "succeeds_when_acked_within_budget"} /\ Len(att) = 1 /\ att[1].ans = "nc"
           \/ c = "success_only_if_acked" /\ att[Len(att)].ans = "err" /\ att[Len(att)].code <= 0}
RetClausesOrKnownQuirk == RetViolNow \subseteq KnownQuirk

\* role 2: every complete behaviour is one case for the replay on the real ClusterAdmin;
\* pred = what this model says the code does (compared softly: drift, never a verdict)
Emit ==
  (EmitCases /\ pc = "done") =>
     PrintT(<<"CASE", ToJson([fam |-> "ctl", src |-> Src, op |-> op, kv |-> kv, max |-> max, init |-> init, pre |-> pre,
                              script |-> script,
                              pred |-> [att |-> Len(att), cls |-> res.cls, code |-> res.code]])>>)
=============================================================================
