---------------------------- MODULE BalanceOracle ----------------------------
(* Declarative oracle for partition-assignment plans: C08 (validity) and C13 (balance,
   stickiness). Pure operators; shared by Balance (chain machine, satisfiability) and
   BalanceTrace (evaluation on plans computed by the real strategies).
   A plan is a set of triples <<member, topic, partition>>; sub maps members to topic
   sets; np maps topics to partition counts (0 = topic does not exist).              *)
EXTENDS Naturals, Sequences, FiniteSets


Subscribers(mem, sub, t) == {m \in mem : t \in sub[m]}
LiveTopics(mem, sub, np) == {t \in DOMAIN np : np[t] > 0 /\ Subscribers(mem, sub, t) # {}}
Owned(plan, m) == {x \in plan : x[1] = m}
OwnedT(plan, m, t) == {x[3] : x \in {y \in plan : y[1] = m /\ y[2] = t}}
Count(plan, m) == Cardinality(Owned(plan, m))

\* C08: every partition of every subscribed topic exactly once, only to subscribers,
\* no unknown member, no nonexistent partition
OnlySubscribers(mem, sub, np, plan) == \A x \in plan : x[1] \in mem /\ x[2] \in sub[x[1]]
OnlyExisting(mem, sub, np, plan) == \A x \in plan : x[2] \in DOMAIN np /\ x[3] \in 0..(np[x[2]] - 1)
ExactlyOnce(mem, sub, np, plan) ==
  \A t \in LiveTopics(mem, sub, np) : \A p \in 0..(np[t] - 1) :
     Cardinality({x \in plan : x[2] = t /\ x[3] = p}) = 1
ValidPlan(mem, sub, np, plan) ==
  /\ OnlySubscribers(mem, sub, np, plan)
  /\ OnlyExisting(mem, sub, np, plan)
  /\ ExactlyOnce(mem, sub, np, plan)

\* C13 range: contiguous ranges whose sizes differ by at most one, per topic
Contiguous(S) == \A a, b \in S : \A p \in a..b : p \in S
RangeShape(mem, sub, np, plan) ==
  \A t \in LiveTopics(mem, sub, np) :
    LET ss == Subscribers(mem, sub, t) IN
    /\ \A m \in ss : Contiguous(OwnedT(plan, m, t))
    /\ \A a, b \in ss : Cardinality(OwnedT(plan, a, t)) <= Cardinality(OwnedT(plan, b, t)) + 1

IdenticalSubs(mem, sub) == \A a, b \in mem : sub[a] = sub[b]
\* C13 round-robin: identical subscriptions => totals differ by at most one
RoundRobinFair(mem, sub, np, plan) ==
  IdenticalSubs(mem, sub) => \A a, b \in mem : Count(plan, a) <= Count(plan, b) + 1

\* C13 sticky: balanced in Kafka's sense
StickyBalanced(mem, sub, np, plan) ==
  \A a, b \in mem :
     Count(plan, a) >= Count(plan, b) + 2 => \A x \in Owned(plan, a) : x[2] \notin sub[b]

\* C13 stickiness clauses, prev = the strategy's own previous plan
FixedPoint(prev, plan) == plan = prev
KeepOnLeave(mem, prev, plan) == \A m \in mem : Owned(prev, m) \subseteq Owned(plan, m)
NoShuffleOnJoin(oldmem, prev, plan) ==
  \A x \in prev : \A y \in plan :
     (x[2] = y[2] /\ x[3] = y[3] /\ x[1] \in oldmem /\ y[1] \in oldmem) => x[1] = y[1]
NoPairwiseSwap(prev, plan) ==
  ~ \E x, y \in prev :
       /\ x[1] # y[1] /\ x[2] = y[2]
       /\ <<y[1], x[2], x[3]>> \in plan      \* x moved from x[1] to y[1]
       /\ <<x[1], y[2], y[3]>> \in plan      \* y moved from y[1] to x[1]

-----------------------------------------------------------------------------
(* ---------- satisfiability of the oracle (so that it can never demand the impossible) ---------- *)

AllCells(mem, sub, np) == UNION {{<<t, p>> : p \in 0..(np[t] - 1)} : t \in LiveTopics(mem, sub, np)}
\* all valid plans of a shape = all functions cell -> subscriber
PlansOf(mem, sub, np) ==
  LET cells == AllCells(mem, sub, np)
      F == {f \in [cells -> mem] : \A c \in cells : c[1] \in sub[f[c]]}
  IN {{<<f[c], c[1], c[2]>> : c \in cells} : f \in F}

Satisfiable(mem, sub, np) ==
  LET P == PlansOf(mem, sub, np) IN
  /\ \E pl \in P : ValidPlan(mem, sub, np, pl) /\ RangeShape(mem, sub, np, pl)
  /\ \E pl \in P : ValidPlan(mem, sub, np, pl) /\ RoundRobinFair(mem, sub, np, pl)
  /\ \E pl \in P : ValidPlan(mem, sub, np, pl) /\ StickyBalanced(mem, sub, np, pl)

\* stickiness is satisfiable together with balance: for every balanced valid previous plan
\* there is a balanced valid next plan keeping the stickiness clause of the operation
StickySatisfiable(omem, osub, onp, mem, sub, np, kind) ==
  LET Good(m, s, n) == {pl \in PlansOf(m, s, n) : StickyBalanced(m, s, n, pl)} IN
  \A prev \in Good(omem, osub, onp) :
    \E pl \in Good(mem, sub, np) :
      /\ NoPairwiseSwap(prev, pl)
      /\ kind = "same" => FixedPoint(prev, pl)
      /\ (kind = "leave" /\ IdenticalSubs(omem, osub)) => KeepOnLeave(mem, prev, pl)
      /\ (kind = "join" /\ IdenticalSubs(mem, sub)) => NoShuffleOnJoin(omem, prev, pl)

=============================================================================
