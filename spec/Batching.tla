------------------------------ MODULE Batching ------------------------------
(* The broker worker's batching rules (async_producer.go brokerProducer.run / waitForSpace /
   rollOver, produce_set.go wouldOverflow / readyToFlush) as a state machine - the model behind
   C16. One broker worker, messages with abstract byte sizes over two partitions.

   The dispatcher rejects a message larger than MaxMessageBytes (Submit). The worker's loop
   (Recv) first makes room when the message would overflow the request size, the partition
   batch size or the message count (WaitForSpace = the current buffer must be handed to the
   bridge first), then adds the message and arms the frequency timer if none is armed. The
   buffer is handed over (Send) when the timer has fired or readyToFlush holds, and only while
   no request is in flight; the response (Resp) frees the bridge.

   Safety (checked on every request put on the wire): MaxMessages, per-partition batch bytes
   <= MaxMessageBytes unless the batch is a single message, request bytes <= MaxRequestSize,
   no oversize message is ever sent. Liveness (cfg Batching.live.cfg, weak fairness on the
   worker's own steps): a buffered message is eventually sent without further input whenever a
   trigger is configured that can fire (frequency, or a threshold that is already reached, or
   none at all).                                                                         *)
EXTENDS Naturals, Sequences, FiniteSets, TLC

CONSTANTS NMsgs, SizeChoices, PartChoices,   \* every assignment of sizes / partitions to the NMsgs messages is explored
          MaxMessages,      \* Flush.MaxMessages (0 = unlimited)
          MaxMessageBytes, MaxRequestBytes, Overhead,
          FlushMessages, FlushBytes, UseTimer,
          TimerBug          \* TRUE models arming the timer before the overflow roll-over (seeded variant; must break liveness)

N == NMsgs
Parts == PartChoices

VARIABLES Sizes, PartOf,   \* chosen in Init, constant afterwards
          next,      \* next message to submit
          inq,       \* messages accepted by the dispatcher, not yet taken by the worker
          buffer,    \* sequence of message ids in the worker's current produce set
          timer,     \* "off" | "armed" | "fired"
          inflight,  \* the set handed to the bridge (<<>> = none)
          sent,      \* history: sequence of sets put on the wire
          rejected   \* messages rejected for their size
vars == <<Sizes, PartOf, next, inq, buffer, timer, inflight, sent, rejected>>

Size(m) == Sizes[m] + Overhead
Bytes(ms) == LET RECURSIVE S(_) S(q) == IF q = <<>> THEN 0 ELSE Size(Head(q)) + S(Tail(q)) IN S(ms)
OfPart(ms, p) == SelectSeq(ms, LAMBDA m : PartOf[m] = p)

WouldOverflow(m) ==
  \/ Bytes(buffer) + Size(m) >= MaxRequestBytes
  \/ (OfPart(buffer, PartOf[m]) # <<>> /\ Bytes(OfPart(buffer, PartOf[m])) + Size(m) >= MaxMessageBytes)
  \/ (MaxMessages > 0 /\ Len(buffer) >= MaxMessages)
ReadyToFlush ==
  /\ buffer # <<>>
  /\ \/ (~UseTimer /\ FlushBytes = 0 /\ FlushMessages = 0)
     \/ (FlushMessages > 0 /\ Len(buffer) >= FlushMessages)
     \/ (FlushBytes > 0 /\ Bytes(buffer) >= FlushBytes)

Init == Sizes \in [1..N -> SizeChoices] /\ PartOf \in [1..N -> PartChoices] /\ next = 1 /\ inq = <<>> /\ buffer = <<>> /\ timer = "off" /\ inflight = <<>> /\ sent = <<>> /\ rejected = {}

\* dispatcher: size check, then on to the worker
Submit ==
  /\ next <= N
  /\ next' = next + 1
  /\ IF Size(next) > MaxMessageBytes
     THEN rejected' = rejected \cup {next} /\ UNCHANGED inq
     ELSE inq' = Append(inq, next) /\ UNCHANGED rejected
  /\ UNCHANGED <<Sizes, PartOf, buffer, timer, inflight, sent>>

Arm(t) == IF UseTimer /\ t = "off" THEN "armed" ELSE t

\* worker takes a message that fits
RecvFits ==
  /\ inq # <<>> /\ ~WouldOverflow(Head(inq))
  /\ buffer' = Append(buffer, Head(inq)) /\ inq' = Tail(inq)
  /\ timer' = Arm(timer)
  /\ UNCHANGED <<Sizes, PartOf, next, inflight, sent, rejected>>
\* worker takes a message that would overflow: waitForSpace hands the buffer over first (needs a free bridge)
RecvOverflow ==
  /\ inq # <<>> /\ WouldOverflow(Head(inq)) /\ inflight = <<>>
  /\ inflight' = buffer /\ sent' = Append(sent, buffer)
  /\ buffer' = <<Head(inq)>> /\ inq' = Tail(inq)
  /\ timer' = IF TimerBug THEN "off" ELSE Arm("off")   \* rollOver clears the timer; the add re-arms it
  /\ UNCHANGED <<Sizes, PartOf, next, rejected>>
TimerFire == timer = "armed" /\ timer' = "fired" /\ UNCHANGED <<Sizes, PartOf, next, inq, buffer, inflight, sent, rejected>>
Send ==
  /\ buffer # <<>> /\ inflight = <<>> /\ (timer = "fired" \/ ReadyToFlush)
  /\ inflight' = buffer /\ sent' = Append(sent, buffer)
  /\ buffer' = <<>> /\ timer' = "off"
  /\ UNCHANGED <<Sizes, PartOf, next, inq, rejected>>
Resp == inflight # <<>> /\ inflight' = <<>> /\ UNCHANGED <<Sizes, PartOf, next, inq, buffer, timer, sent, rejected>>

Worker == RecvFits \/ RecvOverflow \/ TimerFire \/ Send \/ Resp
Next == Submit \/ Worker
Spec == Init /\ [][Next]_vars
LiveSpec == Spec /\ WF_vars(Worker) /\ WF_vars(Submit)

-----------------------------------------------------------------------------
SetOK(s) ==
  /\ (MaxMessages > 0 => Len(s) <= MaxMessages)
  /\ Bytes(s) <= MaxRequestBytes
  /\ \A p \in Parts : Len(OfPart(s, p)) > 1 => Bytes(OfPart(s, p)) <= MaxMessageBytes
  /\ \A k \in 1..Len(s) : Size(s[k]) <= MaxMessageBytes
LimitsRespected == \A k \in 1..Len(sent) : SetOK(sent[k])
RejectedNeverSent == \A k \in 1..Len(sent) : \A j \in 1..Len(sent[k]) : sent[k][j] \notin rejected
NothingLost == \A m \in 1..(next - 1) : m \in rejected \/ (\E k \in 1..Len(inq) : inq[k] = m) \/ (\E k \in 1..Len(buffer) : buffer[k] = m)
                                          \/ (\E k \in 1..Len(sent) : \E j \in 1..Len(sent[k]) : sent[k][j] = m)
\* a trigger that can fire exists for the current buffer
TriggerConfigured == UseTimer \/ (FlushMessages = 0 /\ FlushBytes = 0)
EventuallySent == TriggerConfigured => <>[](next > N => (inq = <<>> /\ buffer = <<>>))
=============================================================================
