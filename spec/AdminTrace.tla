----------------------------- MODULE AdminTrace -----------------------------
(* C19, role 3: evaluates the clauses of AdminOracle on executions of the REAL
   ClusterAdmin recorded by harness/inpkg/admin_test.go.

   One trace = one admin operation:
     reset  the case (what the three scripted brokers were told to do; TLC-generated from
            spec/Admin.tla or spec/AdminSpread.tla)
     req    a controller-bound admin request as the receiving broker saw it
            (b, true controller before/after, request type and version, the answer given)
     sreq   a leader-/coordinator-bound admin request (b, type, version, items, answer)
     meta   a metadata answer and the controller it named (-1: nobody, election in progress)
     lookup a coordinator look-up (informational)
     ret    the value the ClusterAdmin call returned (classified by the driver)

   Total observer: never blocks; a false clause adds <<trace, index, clause>> to viol,
   printed at the end of the file. `drift` counts operations on which the real code did
   something else than the implementation-shaped model predicted; `vdrift` counts requests whose
   version is not the one admin.go in /repo selects for the configured release (cases emitted by the
   reference variants of spec/Admin.tla only; soft, never a verdict). *)
EXTENDS AdminOracle, TLC, Json

Trace == ndJsonDeserialize("trace.ndjson")

VARIABLES l, viol, cur, att, reqs, tail, nops, nreq, ndrift, nvdrift
vars == <<l, viol, cur, att, reqs, tail, nops, nreq, ndrift, nvdrift>>

E == Trace[l]
Tag(S) == {<<E.t, E.i, c>> : c \in S}
ToSet(s) == {s[k] : k \in DOMAIN s}
\* array of pairs [[x, y], ...] -> function x |-> y
PF(p) == [x \in {p[k][1] : k \in DOMAIN p} |-> (CHOOSE q \in ToSet(p) : q[1] = x)[2]]

CtlCase(c) == [op |-> c.op, kv |-> c.kv, max |-> c.max, init |-> c.init, pre |-> c.pre, script |-> c.script]
SpreadCase(c) == [op |-> c.op, kv |-> c.kv, own |-> PF(c.own), itemv |-> PF(c.itemv), bfault |-> PF(c.bfault), all |-> c.all, gerr |-> c.gerr]

Init == l = 1 /\ viol = {} /\ cur = [fam |-> "-"] /\ att = <<>> /\ reqs = <<>> /\ tail = <<>> /\ nops = 0 /\ nreq = 0 /\ ndrift = 0 /\ nvdrift = 0

TReset ==
  /\ E.ev = "reset"
  /\ cur' = E /\ att' = <<>> /\ reqs' = <<>> /\ tail' = <<>>
  /\ UNCHANGED <<viol, nops, nreq, ndrift, nvdrift>>

TReq ==
  /\ E.ev = "req"
  /\ LET a == [b |-> E.b, ctl |-> E.ctl, after |-> E.after, api |-> E.api, v |-> E.v, ans |-> E.ans, code |-> E.code]
         att2 == Append(att, a)
     IN /\ att' = att2
        /\ viol' = viol \cup (IF cur.fam = "ctl" THEN Tag(CtlReqViol(CtlCase(cur), att2)) ELSE Tag({"request_matches_operation"}))
  /\ nreq' = nreq + 1 /\ tail' = <<>>
  /\ nvdrift' = nvdrift + (IF E.v = ExpectedVer(cur.op, cur.kv) THEN 0 ELSE 1)
  /\ UNCHANGED <<cur, reqs, nops, ndrift>>

TSReq ==
  /\ E.ev = "sreq"
  /\ LET q == [b |-> E.b, api |-> E.api, v |-> E.v, items |-> ToSet(E.items), ans |-> E.ans]
         reqs2 == Append(reqs, q)
     IN /\ reqs' = reqs2
        /\ viol' = viol \cup (IF cur.fam = "spread" THEN Tag(SpreadReqViol(SpreadCase(cur), reqs2)) ELSE Tag({"request_matches_operation"}))
  /\ nreq' = nreq + 1 /\ tail' = <<>>
  /\ nvdrift' = nvdrift + (IF E.v = ExpectedVer(cur.op, cur.kv) THEN 0 ELSE 1)
  /\ UNCHANGED <<cur, att, nops, ndrift>>

\* a metadata answer: remember which controller it named (NoCtl = -1: nobody) since the last request
TInfo ==
  /\ E.ev \in {"meta", "lookup"}
  /\ tail' = (IF E.ev = "meta" THEN Append(tail, E.named) ELSE tail)
  /\ UNCHANGED <<viol, cur, att, reqs, nops, nreq, ndrift, nvdrift>>

TRet ==
  /\ E.ev = "ret"
  /\ IF cur.fam = "ctl"
     THEN /\ viol' = viol \cup Tag(CtlRetViol(CtlCase(cur), att, [cls |-> E.cls, code |-> E.code], tail))
          /\ ndrift' = ndrift + (IF cur.src # "ref" \/ (Len(att) = cur.pred_att /\ E.cls = cur.pred_cls /\ E.code = cur.pred_code) THEN 0 ELSE 1)
     ELSE /\ viol' = viol \cup Tag(SpreadRetViol(SpreadCase(cur), reqs, [cls |-> E.cls, code |-> E.code, reported |-> ToSet(E.reported), filed |-> ToSet(E.filed)]))
          /\ ndrift' = ndrift
  /\ nops' = nops + 1
  /\ UNCHANGED <<cur, att, reqs, tail, nreq, nvdrift>>

TEnd ==
  /\ E.ev = "end"
  /\ PrintT(<<"VIOL", ToJson(viol)>>)
  /\ PrintT(<<"STATS", ToJson([ops |-> nops, reqs |-> nreq, drift |-> ndrift, vdrift |-> nvdrift])>>)
  /\ UNCHANGED <<viol, cur, att, reqs, tail, nops, nreq, ndrift, nvdrift>>

Next == /\ l <= Len(Trace)
        /\ l' = l + 1
        /\ (TReset \/ TReq \/ TSReq \/ TInfo \/ TRet \/ TEnd)
Spec == Init /\ [][Next]_vars
Accepted == TLCGet("stats").diameter - 1 = Len(Trace)
=============================================================================
