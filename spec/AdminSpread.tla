----------------------------- MODULE AdminSpread -----------------------------
(* C19, leader- / coordinator-bound half: DeleteRecords (admin.go 551-598),
   DescribeConsumerGroups (788-810), ListConsumerGroupOffsets (857-875) and
   DeleteConsumerGroup (877-902), and DescribeLogDirs (904-947: the items are the brokers
   asked, every one of them gets its own request in its own goroutine, the answers are
   merged into one map keyed by broker id) as one state machine.

   Items are the partitions 0..2 of the topic (DeleteRecords, ListConsumerGroupOffsets) or
   the groups 0..2 (DescribeConsumerGroups; DeleteConsumerGroup has the single group 0).
   own[i] is the broker that leads partition i / coordinates group i (for
   ListConsumerGroupOffsets all partitions belong to the one group, so own is constant).
   The environment is fixed in Init (spread of the items over the brokers, the code each
   owner reports per item, at most one broker failing the whole request); the machine
   then runs the operation as the code does:

     Plan     the grouping loop: `partitionPerBroker[leader] = append(...)`,
              `groupsPerBroker[coordinator] = append(...)`
     Send(b)  one iteration of `for broker, items := range perBroker` - Go map order, so
              every order is explored - request, the broker's answer, and the handling:
              DeleteRecords collects errors and goes on, DescribeConsumerGroups returns at
              the first failed request and otherwise hands the per-group codes to the
              caller inside the descriptions, ListConsumerGroupOffsets hands the broker's
              response to the caller, DeleteConsumerGroup returns the group's code.
     Finish   the return after the loop

   Clauses: the operators of AdminOracle on the history variables reqs and res.        *)
EXTENDS AdminOracle, TLC, Json

CONSTANTS Brokers, ItemErrCodes, SKvs, EmitCases

VARIABLES op, kv, own, itemv, bfault, all, gerr,   \* the case
          pc, todo, anyErr, seen,         \* loop state: brokers still to contact, `errs`, results gathered
          reqs, res

vars == <<op, kv, own, itemv, bfault, all, gerr, pc, todo, anyErr, seen, reqs, res>>

SKvQuick == [DeleteRecords |-> {2, 5}, ListConsumerGroupOffsets |-> {0, 1, 6, 2, 3, 5}, DescribeConsumerGroups |-> {1, 4},
             DeleteConsumerGroup |-> {4, 5}, DescribeLogDirs |-> {3, 5}]
SKvFull == [DeleteRecords |-> {2, 3, 4, 5}, ListConsumerGroupOffsets |-> {0, 1, 6, 2, 3, 4, 5},
            DescribeConsumerGroups |-> {0, 1, 2, 3, 4, 5}, DeleteConsumerGroup |-> {4, 5}, DescribeLogDirs |-> {3, 4, 5}]

ItemErrQuick == {3}
ItemErrThorough == {-1, 3}

ItemsOf(o) == IF o = "DeleteConsumerGroup" THEN {0} ELSE {0, 1, 2}
IncOps == {"DeleteRecords", "DeleteConsumerGroup"}     \* answers keyed by topic / group that can miss the key

\* version selection of admin.go (868-872; the others always send v0)
ReqVersion(o, k) == IF o = "ListConsumerGroupOffsets" THEN (IF AtLeast(k, 1) THEN 2 ELSE 1) ELSE 0
GroupErr == 30      \* GROUP_AUTHORIZATION_FAILED

Init ==
  /\ op \in SpreadOps
  /\ kv \in SKvs[op]
  /\ IF op = "DescribeLogDirs"
     THEN \E S \in (SUBSET Brokers) \ {{}} : own = [i \in S |-> i]      \* the items ARE the brokers asked
     ELSE own \in [ItemsOf(op) -> Brokers]
  /\ op = "ListConsumerGroupOffsets" => \A i, j \in DOMAIN own : own[i] = own[j]
  /\ itemv \in [DOMAIN own -> {0} \cup ItemErrCodes]
  /\ bfault \in [Brokers -> {"none", "conn", "inc"}]
  /\ Cardinality({b \in Brokers : bfault[b] # "none"}) <= 1
  /\ \A b \in Brokers : bfault[b] # "none" => \E i \in DOMAIN own : own[i] = b
  /\ \A b \in Brokers : bfault[b] = "inc" => op \in IncOps
  \* ListConsumerGroupOffsets: nil partition map (needs request v2, i.e. release >= 0.10.2), group-level verdict
  /\ all \in (IF op = "ListConsumerGroupOffsets" /\ AtLeast(kv, 1) THEN BOOLEAN ELSE {FALSE})
  /\ gerr \in (IF op = "ListConsumerGroupOffsets" THEN {0, GroupErr} ELSE {0})
  /\ gerr # 0 => (\A i \in DOMAIN own : itemv[i] = 0) /\ (\A b \in Brokers : bfault[b] = "none")
  /\ pc = "plan" /\ todo = {} /\ anyErr = FALSE /\ seen = {}
  /\ reqs = <<>> /\ res = [cls |-> "-", code |-> 0, reported |-> {}, filed |-> {}]

Plan ==
  /\ pc = "plan"
  /\ todo' = {own[i] : i \in DOMAIN own}
  /\ pc' = "send"
  /\ UNCHANGED <<op, kv, own, itemv, bfault, all, gerr, anyErr, seen, reqs, res>>

ItemsAt(b) == {i \in DOMAIN own : own[i] = b}
Bad(S) == {i \in S : itemv[i] # 0}
Ret(r) == pc' = "done" /\ res' = r

Send(b) ==
  /\ pc = "send" /\ b \in todo
  /\ todo' = todo \ {b}
  /\ LET its == ItemsAt(b)
         ans == IF bfault[b] = "none" THEN "items" ELSE bfault[b]
     IN
     /\ reqs' = Append(reqs, [b |-> b, api |-> ApiOf[op], v |-> ReqVersion(op, kv), items |-> its, ans |-> ans])
     /\ CASE op = "DeleteRecords" ->
               /\ anyErr' = (anyErr \/ ans # "items" \/ Bad(its) # {})
               /\ seen' = seen \cup its
               /\ UNCHANGED <<pc, res>>
          [] op = "DescribeConsumerGroups" ->
               IF ans = "conn"
               THEN Ret([cls |-> "other", code |-> 0, reported |-> {}, filed |-> {}]) /\ UNCHANGED <<anyErr, seen>>
               ELSE seen' = seen \cup its /\ UNCHANGED <<pc, res, anyErr>>
          [] op = "DescribeLogDirs" ->      \* one goroutine per broker; an error goes to errChan, an answer into the map
               /\ anyErr' = (anyErr \/ ans # "items")
               /\ seen' = (IF ans = "items" THEN seen \cup its ELSE seen)
               /\ UNCHANGED <<pc, res>>
          [] op = "ListConsumerGroupOffsets" ->
               /\ UNCHANGED <<anyErr, seen>>
               /\ IF ans = "conn"
                  THEN Ret([cls |-> "other", code |-> 0, reported |-> {}, filed |-> {}])
                  ELSE \* the coordinator's response as it is (v2: a group-level error at the top level,
                       \* v1: on every listed partition - the code always lists or, from v2 on, sends null)
                       Ret([cls |-> "nil", code |-> 0, reported |-> (IF gerr # 0 THEN its ELSE Bad(its)), filed |-> {}])
          [] op = "DeleteConsumerGroup" ->
               /\ UNCHANGED <<anyErr, seen>>
               /\ IF ans = "conn" THEN Ret([cls |-> "other", code |-> 0, reported |-> {}, filed |-> {}])
                  ELSE IF ans = "inc" THEN Ret([cls |-> "incomplete", code |-> 0, reported |-> {}, filed |-> {}])
                  ELSE IF Bad(its) # {} THEN Ret([cls |-> "kerr", code |-> itemv[0], reported |-> {}, filed |-> {}])
                  ELSE Ret([cls |-> "nil", code |-> 0, reported |-> {}, filed |-> {}])
  /\ UNCHANGED <<op, kv, own, itemv, bfault, all, gerr>>

Finish ==
  /\ pc = "send" /\ todo = {}
  /\ IF op = "DeleteRecords"
     THEN Ret(IF anyErr THEN [cls |-> "agg", code |-> 0, reported |-> {}, filed |-> {}] ELSE [cls |-> "nil", code |-> 0, reported |-> {}, filed |-> {}])
     ELSE IF op = "DescribeLogDirs"
     THEN \* the first error of errChan if any; the answers received are in the map either way,
          \* each under the id of the broker that gave it
          Ret([cls |-> (IF anyErr THEN "other" ELSE "nil"), code |-> 0, reported |-> Bad(seen),
               filed |-> {<<i, i>> : i \in seen}])
     ELSE Ret([cls |-> "nil", code |-> 0, reported |-> Bad(seen), filed |-> {}])
  /\ UNCHANGED <<op, kv, own, itemv, bfault, all, gerr, todo, anyErr, seen, reqs>>

Next == Plan \/ (\E b \in Brokers : Send(b)) \/ Finish
Spec == Init /\ [][Next]_vars

-----------------------------------------------------------------------------
Case == [op |-> op, kv |-> kv, own |-> own, itemv |-> itemv, bfault |-> bfault, all |-> all, gerr |-> gerr]

TypeOK == pc \in {"plan", "send", "done"} /\ todo \subseteq Brokers /\ Len(reqs) <= Cardinality(Brokers)
ReqClauses == reqs # <<>> => SpreadReqViol(Case, reqs) = {}
RetClauses == pc = "done" => SpreadRetViol(Case, reqs, res) = {}

\* role 2: one case per initial state (the order of the per-broker requests is the code's)
FunPairs(f) == LET RECURSIVE F(_)
                   F(S) == IF S = {} THEN <<>> ELSE LET x == CHOOSE y \in S : \A z \in S : y <= z IN <<<<x, f[x]>>>> \o F(S \ {x})
               IN F(DOMAIN f)
Emit ==
  (EmitCases /\ pc = "plan") =>
     PrintT(<<"CASE", ToJson([fam |-> "spread", op |-> op, kv |-> kv, own |-> FunPairs(own), itemv |-> FunPairs(itemv),
                              bfault |-> FunPairs(bfault), all |-> all, gerr |-> gerr])>>)
=============================================================================
