---------------------------- MODULE DecoderTrace ----------------------------
(* C10, role 3: total observer over what the REAL sarama decoders did with adversarial
   bytes (recorded by harness/inpkg/decoder_run_test.go; every decode ran in a memory-capped
   worker process under a watchdog and recover()).

   Events
     reset  fam = "body": one valid encoding (type, version) with the digests `orig` of the
                          records it carries;  fam = "prog": primitive programs of spec/Decoder.tla
     dec    one decode of one structurally mutated encoding through the real entry point
     pstep  one primitive call of a TLC-generated program on the real realDecoder, with the
            outcome spec/Decoder.tla predicted for the pinned primitives (m* fields)
   Never blocks; accumulates <<trace, index, clause>> in viol, prints it at the end.        *)
EXTENDS Integers, Sequences, FiniteSets, TLC, Json

Trace == ndJsonDeserialize("trace.ndjson")

VARIABLES l, viol, drift, ndec, nstep, orig
vars == <<l, viol, drift, ndec, nstep, orig>>

E == Trace[l]
ToSet(s) == {s[k] : k \in DOMAIN s}
When(cond, c) == IF cond THEN {<<E.t, E.i, c>>} ELSE {}

\* allocation proportional to the input: 64 KiB + 200 bytes per input byte; a compressed payload may
\* additionally inflate (and the decompressors keep frame buffers)
AllocFloorKiB == 64
CompAllowKiB == 16384
BoundKiB(inlen, comp) == AllocFloorKiB + (200 * inlen) \div 1024 + 1 + (IF comp THEN CompAllowKiB ELSE 0)

\* the records that surfaced are records of the original, not more of them (a partial trailing
\* message / batch is dropped by design; what surfaces must be unaltered)
NoDifferentRecords(got) == ToSet(got) \subseteq ToSet(orig) /\ Len(got) <= Len(orig)
\* "strict" inputs are consistent (every CRC and enclosing length recomputed) except for ONE length / count that
\* disagrees with the data, or junk trailing inside a length-delimited extent: the decode must fail, or return
\* exactly the original records, or flag its result as partial itself - silently dropping records is wrong data
\* (in a fetch block the digests of each batch end with "~cut": dropping whole trailing batches after at least one
\* complete batch is FetchResponseBlock's documented behaviour)
WholeBatchPrefix(got) == /\ Len(got) > 0 /\ Len(got) < Len(orig) /\ got = SubSeq(orig, 1, Len(got)) /\ got[Len(got)] = "~cut"
\* "mustfail" inputs: one push/pop-verified field (block length, record length, CRC) is wrong and everything around
\* it consistent. "A length that disagrees with the data / an altered checksum is reported as an error": ok is
\* acceptable only where the code documents a tolerance - the decoder flags the tail as partial (ErrInsufficientData
\* on a trailing block), or a fetch block drops whole trailing batches after a complete one - see truncok below. Returning the
\* original records WITHOUT having noticed is not acceptable: the field was not verified.
\* The tolerance is for a message cut short at the END of the fetched bytes only: the damaged length must exceed the
\* bytes that remain in its decoder (truncok). A length <= remaining - negative ones included - that disagrees with
\* the data, or a wrong CRC, cannot be explained by truncation: it must be an error, flagged-partial is not enough.
Tolerated(got, partial, truncok) == truncok /\ ((partial /\ NoDifferentRecords(got)) \/ WholeBatchPrefix(got))
ExactOrFlagged(got, partial) == got = orig \/ (partial /\ NoDifferentRecords(got)) \/ WholeBatchPrefix(got)

DecClauses ==
     When(E.res \in {"panic", "crash"}, "no_panic")
  \cup When(E.res = "hang", "no_hang")
  \cup When(E.res = "oom" \/ E.alloc > BoundKiB(E.inlen, E.comp) + E.allow, "alloc_proportional")
  \cup When(E.dmg /\ E.res = "ok" /\ ~NoDifferentRecords(E.got), "crc_or_length_damage_is_error")
  \cup When(E.strict /\ E.res = "ok" /\ ~ExactOrFlagged(E.got, E.partial), "crc_or_length_damage_is_error")
  \cup When(E.mustfail /\ E.res = "ok" /\ ~Tolerated(E.got, E.partial, E.truncok), "crc_or_length_damage_is_error")
  \cup When(E.res \notin {"ok", "err", "panic", "crash", "hang", "oom"}, "unclassified_result")

\* the primitive contract, on the real primitive's outcome
StepClauses ==
     When(E.res \in {"panic", "crash"}, "prim_no_panic")
  \cup When(E.res = "hang", "prim_no_hang")
  \cup When(E.res = "oom" \/ E.alloc > BoundKiB(E.len, FALSE), "prim_alloc_proportional")
  \cup When(E.res \notin {"oom", "crash", "hang"} /\ ~(0 <= E.off /\ E.off <= E.len), "prim_cursor_in_bounds")
  \cup When(E.res = "ok" /\ E.retc \notin {"-", "null", "within"}, "prim_length_within_remainder")
  \cup When(E.res \notin {"ok", "insufficient", "invalid", "overflow", "panic", "crash", "hang", "oom"}, "unclassified_result")

\* soft: the pinned-tree model of spec/Decoder.tla predicted something else (DRIFT, never a verdict)
StepDrift ==
  IF E.res \in {"oom", "crash", "hang"} THEN When(E.res # E.mres, "model_agrees")
  ELSE When(E.res # E.mres \/ E.off # E.moff \/ E.retc # E.mretc \/ E.off0 # E.moff0, "model_agrees")

Init == l = 1 /\ viol = {} /\ drift = {} /\ ndec = 0 /\ nstep = 0 /\ orig = <<>>

TReset == /\ E.ev = "reset" /\ orig' = E.orig /\ UNCHANGED <<viol, drift, ndec, nstep>>
TDec == /\ E.ev = "dec" /\ viol' = viol \cup DecClauses /\ ndec' = ndec + 1 /\ UNCHANGED <<drift, nstep, orig>>
TStep == /\ E.ev = "pstep" /\ viol' = viol \cup StepClauses /\ drift' = drift \cup StepDrift /\ nstep' = nstep + 1
         /\ UNCHANGED <<ndec, orig>>
TEnd == /\ E.ev = "end"
        /\ PrintT(<<"VIOL", ToJson(viol)>>)
        /\ PrintT(<<"DRIFT", ToJson(drift)>>)
        /\ PrintT(<<"STATS", ToJson([decodes |-> ndec, steps |-> nstep])>>)
        /\ UNCHANGED <<viol, drift, ndec, nstep, orig>>

Next == /\ l <= Len(Trace)
        /\ l' = l + 1
        /\ (TReset \/ TDec \/ TStep \/ TEnd)
Spec == Init /\ [][Next]_vars
Accepted == TLCGet("stats").diameter - 1 = Len(Trace)
=============================================================================
