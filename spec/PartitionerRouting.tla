--------------------------- MODULE PartitionerRouting ---------------------------
(* How the producer uses a partitioner (C17, second family): one topic of an AsyncProducer.

   np partitions, the subset L of them leaderless (the metadata response carries
   LEADER_NOT_AVAILABLE for them, client.go keeps them out of the writable list), one
   partitioner instance of kind pk.  Actions follow the goroutines of async_producer.go:

     TpPartition(m)  topicProducer.dispatch/partitionMessage, strictly in submission order:
                     requiresConsistency -> client.Partitions | client.WritablePartitions,
                     numPartitions = 0 -> ErrLeaderNotAvailable, partitioner.Partition,
                     range check -> ErrInvalidPartition, msg.Partition = partitions[choice]
     PpDeliver(i)    partitionProducer.dispatch + brokerProducer for the chosen partition
                     (FIFO per partition, partitions independent of each other): a partition
                     without leader fails the message, otherwise it is put on the wire in
                     that partition and acknowledged.

     Recover(L2)     (Dynamic scenarios) every partition of the topic was leaderless while the first
                     p1 messages were handled; now leaders are back for all partitions but L2.  The
                     client notices on its own: WritablePartitions refreshes the metadata whenever its
                     cached list is empty, the partition worker whenever it has no leader.

   Circuit breakers as in the code: topicProducer.breaker and partitionProducer.breaker are
   breaker.New(3, 1, 10s) - the third ERROR returned by the wrapped function opens them and they
   stay open for the rest of a (short) scenario.  In partitionMessage the wrapped function only
   fetches the partition list: an EMPTY writable list is a valid answer, not an error (the
   ErrLeaderNotAvailable for it is produced outside the breaker), so the topic breaker never
   opens here.  A partition worker's breaker counts failed leader look-ups of ITS partition.
   CountEmptyAsError = TRUE models a producer that charges the empty list to the topic breaker:
   TLC is then EXPECTED to find RecoveredRouted violated.

   The clauses of the property are invariants; terminal states are emitted as scenarios
   that harness/inpkg/partitioner_test.go runs on a real AsyncProducer.                  *)
EXTENDS PartitionerOps, TLC, Json

CONSTANTS
  MaxNP,      \* partitions per topic: 1..MaxNP
  MaxMsgs,    \* messages per scenario
  PKs,        \* partitioner kinds explored
  Dynamic,    \* TRUE: all partitions leaderless for the first p1 messages (one input repeated), then recovery, then P2 more
  P1s,        \* Dynamic: lengths of the all-leaderless phase
  P2,         \* Dynamic: messages after the recovery
  CountEmptyAsError,   \* TRUE: an empty candidate list counts as an error of the topic breaker (NOT what the code does)
  EmitCases

VARIABLES np, L, pk, cursor, msgs, p1, flipped, L0, tperr, pperr
vars == <<np, L, pk, cursor, msgs, p1, flipped, L0, tperr, pperr>>

BreakerThreshold == 3

\* consistency declaration of each kind: static = RequiresConsistency(), dyn = rule of
\* MessageRequiresConsistency ("none": DynamicConsistencyPartitioner not implemented)
Info(k) ==
  CASE k = "manual"      -> [static |-> TRUE,  dyn |-> "none"]
    [] k = "hash"        -> [static |-> TRUE,  dyn |-> "keyed"]
    [] k = "refhash"     -> [static |-> TRUE,  dyn |-> "keyed"]
    [] k = "roundrobin"  -> [static |-> FALSE, dyn |-> "none"]
    [] k = "random"      -> [static |-> FALSE, dyn |-> "none"]
    [] k = "cust_true"   -> [static |-> TRUE,  dyn |-> "none"]     \* custom, requires consistency
    [] k = "cust_false"  -> [static |-> FALSE, dyn |-> "none"]     \* custom, does not
    [] k = "cust_keyed"  -> [static |-> FALSE, dyn |-> "keyed"]    \* custom dynamic; static answer must be ignored
    [] k = "cust_never"  -> [static |-> TRUE,  dyn |-> "never"]    \* custom dynamic; static answer must be ignored
IsCustom(k) == k \in {"cust_true", "cust_false", "cust_keyed", "cust_never"}

\* scripted return of a custom partitioner, resolved against the count it is offered
Scripts == {"first", "last", "neg", "over", "err"}
ScriptRet(sc, n) == CASE sc = "first" -> 0 [] sc = "last" -> n - 1 [] sc = "neg" -> -1 [] sc = "over" -> n [] sc = "err" -> -1

\* input alphabet: [keyed (Key != nil), part (manual), sc (custom), want (hash, keyed: the index the key hashes to),
\* ek: "-" or, for a key without bytes, its spelling "b" ByteEncoder([]byte{}) / "s" StringEncoder("") / "n" ByteEncoder(nil)]
InE(keyed, part, sc, want, ek) == [keyed |-> keyed, part |-> part, sc |-> sc, want |-> want, ek |-> ek]
In(keyed, part, sc, want) == InE(keyed, part, sc, want, "-")
EmptySpellings == {"b", "s", "n"}
\* where the hash partitioners put a key without bytes (FNV-1a of nothing) among n partitions
EmptyIdx(n) == IF pk = "refhash" THEN Ref(FnvEmpty, n) ELSE Legacy(FnvEmpty, n)
DynInputs ==      \* reduced alphabet of the Dynamic scenarios
  CASE pk = "manual" -> {In(TRUE, p, "-", -1) : p \in {0, np - 1}}
    [] pk \in {"hash", "refhash"} -> {In(TRUE, 0, "-", w) : w \in {0, np - 1}} \cup {In(FALSE, 0, "-", -1), InE(TRUE, 0, "-", -1, "s")}
    [] pk \in {"roundrobin", "random"} -> {In(FALSE, 0, "-", -1)}
    [] OTHER -> {In(k, 0, sc, -1) : k \in BOOLEAN, sc \in {"first", "last"}}
Inputs ==
  IF Dynamic THEN DynInputs ELSE
  CASE pk = "manual" -> {In(TRUE, p, "-", -1) : p \in -1 .. np} \cup {In(FALSE, np - 1, "-", -1)}
    [] pk \in {"hash", "refhash"} -> {In(TRUE, 0, "-", w) : w \in 0 .. (np - 1)} \cup {In(FALSE, 0, "-", -1)}
                                     \cup {InE(TRUE, 0, "-", -1, e) : e \in EmptySpellings}
    [] pk \in {"roundrobin", "random"} -> {In(k, 0, "-", -1) : k \in BOOLEAN}
    [] OTHER -> {In(k, 0, sc, -1) : k \in BOOLEAN, sc \in Scripts}

Init ==
  /\ np \in 1 .. MaxNP
  /\ L \in SUBSET (0 .. (MaxNP - 1))
  /\ L \subseteq AllParts(np)
  /\ Dynamic => L = AllParts(np)
  /\ pk \in PKs
  /\ cursor = 0
  /\ msgs = <<>>
  /\ p1 \in (IF Dynamic THEN P1s ELSE {MaxMsgs})
  /\ flipped = FALSE
  /\ L0 = L
  /\ tperr = 0
  /\ pperr = [p \in 0 .. (MaxNP - 1) |-> 0]

\* ---- topicProducer.partitionMessage, as the code does it
PartitionMessage(m) ==
  LET info == Info(pk)
      req == Requires(info.static, info.dyn, m.keyed)
      S == IF req THEN AllParts(np) ELSE WritableParts(np, L)     \* sorted list = set + Nth
      n == Cardinality(S)
      rr == IF cursor >= n THEN 0 ELSE cursor
      \* choice: "any" for the random generator, otherwise an integer; perr: the partitioner returned an error
      anyc == pk = "random" \/ (pk \in {"hash", "refhash"} /\ ~m.keyed)
      c == CASE pk = "manual" -> m.part
             [] pk \in {"hash", "refhash"} -> IF m.ek # "-" /\ n > 0 THEN EmptyIdx(n) ELSE m.want
             [] pk = "roundrobin" -> rr
             [] IsCustom(pk) -> ScriptRet(m.sc, n)
             [] OTHER -> 0
      perr == IsCustom(pk) /\ m.sc = "err"
      base == [in |-> m, req |-> req, n |-> n, called |-> n > 0, anyc |-> anyc, c |-> c, perr |-> perr,
               stage |-> "failed", target |-> -1, wire |-> -1, out |-> "error", why |-> "-",
               ph |-> (IF flipped THEN 2 ELSE 1), Lat |-> L]
  IN
  IF tperr >= BreakerThreshold THEN [base EXCEPT !.why = "topic_breaker_open", !.called = FALSE, !.c = -1, !.anyc = FALSE]
  ELSE IF n = 0 THEN [base EXCEPT !.why = "no_partition", !.c = -1, !.anyc = FALSE]
  ELSE IF perr THEN [base EXCEPT !.why = "partitioner_error"]
  ELSE IF anyc THEN [base EXCEPT !.stage = "partitioned", !.target = -2, !.out = "-"]   \* some writable partition
  ELSE IF c < 0 \/ c >= n THEN [base EXCEPT !.why = "invalid_partition"]
  ELSE [base EXCEPT !.stage = "partitioned", !.target = Nth(S, c), !.out = "-"]

TpPartition(m) ==
  /\ IF ~Dynamic THEN Len(msgs) < MaxMsgs
     ELSE IF ~flipped THEN Len(msgs) < p1 /\ (IF msgs = <<>> THEN TRUE ELSE m = msgs[1].in)
     ELSE Len(msgs) < p1 + P2
  /\ msgs' = Append(msgs, PartitionMessage(m))
  /\ cursor' = IF pk = "roundrobin" /\ PartitionMessage(m).called
               THEN (IF cursor >= PartitionMessage(m).n THEN 0 ELSE cursor) + 1 ELSE cursor
  \* the function handed to tp.breaker.Run returns the error of client.Partitions / WritablePartitions only
  /\ tperr' = IF CountEmptyAsError /\ tperr < BreakerThreshold /\ PartitionMessage(m).n = 0 THEN tperr + 1 ELSE tperr
  /\ UNCHANGED <<np, L, pk, p1, flipped, L0, pperr>>

\* the leaders come back (for all partitions but L2) while the producer is idle
Recover(L2) ==
  /\ Dynamic /\ ~flipped
  /\ Len(msgs) = p1
  /\ \A i \in DOMAIN msgs : msgs[i].stage \in {"failed", "acked"}
  /\ L2 \subseteq AllParts(np) /\ L2 # AllParts(np)
  /\ L' = L2
  /\ flipped' = TRUE
  /\ UNCHANGED <<np, pk, cursor, msgs, p1, L0, tperr, pperr>>

\* ---- partitionProducer / brokerProducer of the chosen partition
PpDeliver(i) ==
  /\ msgs[i].stage = "partitioned"
  \* FIFO per partition: no earlier message for the same partition is still waiting
  /\ \A j \in 1 .. (i - 1) : ~(msgs[j].stage = "partitioned" /\ msgs[j].target = msgs[i].target)
  /\ LET t == msgs[i].target
         open == t >= 0 /\ pperr[t] >= BreakerThreshold      \* pp.updateLeader runs inside pp.breaker
     IN
     /\ msgs' = [msgs EXCEPT ![i] =
           IF open THEN [@ EXCEPT !.stage = "failed", !.out = "error", !.why = "partition_breaker_open"]
           ELSE IF t \in L
           THEN [@ EXCEPT !.stage = "failed", !.out = "error", !.why = "leader_not_available"]
           ELSE [@ EXCEPT !.stage = "acked", !.out = "success", !.wire = t]]
     /\ pperr' = IF ~open /\ t \in L THEN [pperr EXCEPT ![t] = @ + 1] ELSE pperr
  /\ UNCHANGED <<np, L, pk, cursor, p1, flipped, L0, tperr>>

Next ==
  \/ \E m \in Inputs : TpPartition(m)
  \/ \E i \in DOMAIN msgs : PpDeliver(i)
  \/ \E L2 \in SUBSET (0 .. (MaxNP - 1)) : Recover(L2)

Spec == Init /\ [][Next]_vars

(* ---------- the clauses of C17 (second family) as invariants ---------- *)
Done(e) == e.stage \in {"failed", "acked"}
\* keyed messages of consistency-requiring partitioners are offered all partitions, others only writable ones
OfferedRule ==
  \A i \in DOMAIN msgs : LET e == msgs[i] info == Info(pk) IN
     e.n = Cardinality(Offered(np, e.Lat, info.static, info.dyn, e.in.keyed))
\* a message is sent to the partition the partitioner chose (index into the offered, sorted list)
SentToChosen ==
  \A i \in DOMAIN msgs : LET e == msgs[i] info == Info(pk) IN
     e.wire # -1 =>
        /\ e.called /\ ~e.perr
        /\ e.anyc => e.wire = -2       \* the generator's choice: some partition of the offered (writable) list
        /\ ~e.anyc => (e.c \in 0 .. (e.n - 1) /\ e.wire = Nth(Offered(np, e.Lat, info.static, info.dyn, e.in.keyed), e.c))
        /\ e.wire \notin e.Lat
\* out of range / partitioner error / no partition available: error event and never on the wire
InvalidFailsUnsent ==
  \A i \in DOMAIN msgs : LET e == msgs[i] IN
     (e.n = 0 \/ e.perr \/ (~e.anyc /\ (e.c < 0 \/ e.c >= e.n))) => (e.out = "error" /\ e.wire = -1 /\ e.stage = "failed")
\* the partitioner is never asked to choose among zero partitions
NeverOfferedNothing == \A i \in DOMAIN msgs : msgs[i].called => msgs[i].n > 0
\* whenever partitions are available for a message the partitioner is asked, and once the leaders are back
\* a message with a valid choice is sent - unless the worker of that very partition had its three failed
\* leader look-ups (the documented condition of its breaker)
FailedLookups(p, i) == Cardinality({j \in 1 .. (i - 1) : msgs[j].target = p /\ msgs[j].why = "leader_not_available"})
RecoveredRouted ==
  \A i \in DOMAIN msgs : LET e == msgs[i] IN
     /\ e.n > 0 => e.called
     /\ (Done(e) /\ e.stage = "failed" /\ e.target >= 0 /\ e.target \notin e.Lat) => FailedLookups(e.target, i) >= BreakerThreshold
     /\ e.why # "topic_breaker_open"
TypeOK == cursor \in 0 .. (MaxNP + 1) /\ tperr \in 0 .. BreakerThreshold

(* ---------- role 2: terminal states as scenarios ---------- *)
SetSeq(S) == [k \in 1 .. Cardinality(S) |-> Nth(S, k - 1)]
\* expected outcome; "any" when the generator chooses among partitions one of whose workers has its breaker open
MayHitOpenBreaker(e) ==
  e.anyc /\ e.stage = "acked" /\ \E p \in Offered(np, e.Lat, Info(pk).static, Info(pk).dyn, e.in.keyed) : pperr[p] >= BreakerThreshold
MsgJson(e) == [keyed |-> e.in.keyed, part |-> e.in.part, sc |-> e.in.sc, want |-> e.in.want, ek |-> e.in.ek,
               xn |-> e.n, xout |-> (IF MayHitOpenBreaker(e) THEN "any" ELSE e.out), xtarget |-> e.target, xwhy |-> e.why]
Emit ==
  (EmitCases /\ (IF Dynamic THEN flipped /\ Len(msgs) = p1 + P2 ELSE Len(msgs) = MaxMsgs) /\ \A i \in DOMAIN msgs : Done(msgs[i])) =>
     PrintT(<<"CASE", ToJson([fam |-> "prod", np |-> np, leaderless |-> SetSeq(L0), pk |-> pk,
                              flip |-> flipped, p1 |-> p1, leaderless2 |-> SetSeq(L),
                              static |-> Info(pk).static, dyn |-> Info(pk).dyn,
                              msgs |-> [i \in 1 .. Len(msgs) |-> MsgJson(msgs[i])]])>>)
=============================================================================
