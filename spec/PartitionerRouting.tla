--------------------------- MODULE PartitionerRouting ---------------------------
(* How the producer uses a partitioner (C17, second family): one topic of an AsyncProducer.

   np partitions, the subset L of them leaderless (the metadata response carries
   LEADER_NOT_AVAILABLE for them, client.go keeps them out of the writable list), one
   partitioner instance of kind pk.  Actions follow the goroutines of async_producer.go:

     TpPartition(m)  topicProducer.dispatch/partitionMessage, strictly in submission order:
                     requiresConsistency -> client.Partitions | client.WritablePartitions,
                     numPartitions = 0 -> ErrLeaderNotAvailable, partitioner.Partition,
                     range check -> ErrInvalidPartition, msg.Partition = partitions[choice]
     PpDeliver(i)    partitionProducer.dispatch + brokerProducer for the chosen partition
                     (FIFO per partition, partitions independent of each other): a partition
                     without leader fails the message, otherwise it is put on the wire in
                     that partition and acknowledged.

   The clauses of the property are invariants; terminal states are emitted as scenarios
   that harness/inpkg/partitioner_test.go runs on a real AsyncProducer.                  *)
EXTENDS PartitionerOps, TLC, Json

CONSTANTS
  MaxNP,      \* partitions per topic: 1..MaxNP
  MaxMsgs,    \* messages per scenario
  PKs,        \* partitioner kinds explored
  EmitCases

VARIABLES np, L, pk, cursor, msgs
vars == <<np, L, pk, cursor, msgs>>

\* consistency declaration of each kind: static = RequiresConsistency(), dyn = rule of
\* MessageRequiresConsistency ("none": DynamicConsistencyPartitioner not implemented)
Info(k) ==
  CASE k = "manual"      -> [static |-> TRUE,  dyn |-> "none"]
    [] k = "hash"        -> [static |-> TRUE,  dyn |-> "keyed"]
    [] k = "refhash"     -> [static |-> TRUE,  dyn |-> "keyed"]
    [] k = "roundrobin"  -> [static |-> FALSE, dyn |-> "none"]
    [] k = "random"      -> [static |-> FALSE, dyn |-> "none"]
    [] k = "cust_true"   -> [static |-> TRUE,  dyn |-> "none"]     \* custom, requires consistency
    [] k = "cust_false"  -> [static |-> FALSE, dyn |-> "none"]     \* custom, does not
    [] k = "cust_keyed"  -> [static |-> FALSE, dyn |-> "keyed"]    \* custom dynamic; static answer must be ignored
    [] k = "cust_never"  -> [static |-> TRUE,  dyn |-> "never"]    \* custom dynamic; static answer must be ignored
IsCustom(k) == k \in {"cust_true", "cust_false", "cust_keyed", "cust_never"}

\* scripted return of a custom partitioner, resolved against the count it is offered
Scripts == {"first", "last", "neg", "over", "err"}
ScriptRet(sc, n) == CASE sc = "first" -> 0 [] sc = "last" -> n - 1 [] sc = "neg" -> -1 [] sc = "over" -> n [] sc = "err" -> -1

\* input alphabet: [keyed, part (manual), sc (custom), want (hash, keyed: the index the key hashes to)]
In(keyed, part, sc, want) == [keyed |-> keyed, part |-> part, sc |-> sc, want |-> want]
Inputs ==
  CASE pk = "manual" -> {In(TRUE, p, "-", -1) : p \in -1 .. np} \cup {In(FALSE, np - 1, "-", -1)}
    [] pk \in {"hash", "refhash"} -> {In(TRUE, 0, "-", w) : w \in 0 .. (np - 1)} \cup {In(FALSE, 0, "-", -1)}
    [] pk \in {"roundrobin", "random"} -> {In(k, 0, "-", -1) : k \in BOOLEAN}
    [] OTHER -> {In(k, 0, sc, -1) : k \in BOOLEAN, sc \in Scripts}

Init ==
  /\ np \in 1 .. MaxNP
  /\ L \in SUBSET (0 .. (MaxNP - 1))
  /\ L \subseteq AllParts(np)
  /\ pk \in PKs
  /\ cursor = 0
  /\ msgs = <<>>

\* ---- topicProducer.partitionMessage, as the code does it
PartitionMessage(m) ==
  LET info == Info(pk)
      req == Requires(info.static, info.dyn, m.keyed)
      S == IF req THEN AllParts(np) ELSE WritableParts(np, L)     \* sorted list = set + Nth
      n == Cardinality(S)
      rr == IF cursor >= n THEN 0 ELSE cursor
      \* choice: "any" for the random generator, otherwise an integer; perr: the partitioner returned an error
      anyc == pk = "random" \/ (pk \in {"hash", "refhash"} /\ ~m.keyed)
      c == CASE pk = "manual" -> m.part
             [] pk \in {"hash", "refhash"} -> m.want
             [] pk = "roundrobin" -> rr
             [] IsCustom(pk) -> ScriptRet(m.sc, n)
             [] OTHER -> 0
      perr == IsCustom(pk) /\ m.sc = "err"
      base == [in |-> m, req |-> req, n |-> n, called |-> n > 0, anyc |-> anyc, c |-> c, perr |-> perr,
               stage |-> "failed", target |-> -1, wire |-> -1, out |-> "error", why |-> "-"]
  IN
  IF n = 0 THEN [base EXCEPT !.why = "no_partition", !.c = -1, !.anyc = FALSE]
  ELSE IF perr THEN [base EXCEPT !.why = "partitioner_error"]
  ELSE IF anyc THEN [base EXCEPT !.stage = "partitioned", !.target = -2, !.out = "-"]   \* some writable partition
  ELSE IF c < 0 \/ c >= n THEN [base EXCEPT !.why = "invalid_partition"]
  ELSE [base EXCEPT !.stage = "partitioned", !.target = Nth(S, c), !.out = "-"]

TpPartition(m) ==
  /\ Len(msgs) < MaxMsgs
  /\ msgs' = Append(msgs, PartitionMessage(m))
  /\ cursor' = IF pk = "roundrobin" /\ PartitionMessage(m).called
               THEN (IF cursor >= PartitionMessage(m).n THEN 0 ELSE cursor) + 1 ELSE cursor
  /\ UNCHANGED <<np, L, pk>>

\* ---- partitionProducer / brokerProducer of the chosen partition
PpDeliver(i) ==
  /\ msgs[i].stage = "partitioned"
  \* FIFO per partition: no earlier message for the same partition is still waiting
  /\ \A j \in 1 .. (i - 1) : ~(msgs[j].stage = "partitioned" /\ msgs[j].target = msgs[i].target)
  /\ msgs' = [msgs EXCEPT ![i] =
        IF msgs[i].target \in L
        THEN [@ EXCEPT !.stage = "failed", !.out = "error", !.why = "leader_not_available"]
        ELSE [@ EXCEPT !.stage = "acked", !.out = "success", !.wire = msgs[i].target]]
  /\ UNCHANGED <<np, L, pk, cursor>>

Next ==
  \/ \E m \in Inputs : TpPartition(m)
  \/ \E i \in DOMAIN msgs : PpDeliver(i)

Spec == Init /\ [][Next]_vars

(* ---------- the clauses of C17 (second family) as invariants ---------- *)
Done(e) == e.stage \in {"failed", "acked"}
\* keyed messages of consistency-requiring partitioners are offered all partitions, others only writable ones
OfferedRule ==
  \A i \in DOMAIN msgs : LET e == msgs[i] info == Info(pk) IN
     e.n = Cardinality(Offered(np, L, info.static, info.dyn, e.in.keyed))
\* a message is sent to the partition the partitioner chose (index into the offered, sorted list)
SentToChosen ==
  \A i \in DOMAIN msgs : LET e == msgs[i] info == Info(pk) IN
     e.wire # -1 =>
        /\ e.called /\ ~e.perr
        /\ e.anyc => e.wire = -2       \* the generator's choice: some partition of the offered (writable) list
        /\ ~e.anyc => (e.c \in 0 .. (e.n - 1) /\ e.wire = Nth(Offered(np, L, info.static, info.dyn, e.in.keyed), e.c))
        /\ e.wire \notin L
\* out of range / partitioner error / no partition available: error event and never on the wire
InvalidFailsUnsent ==
  \A i \in DOMAIN msgs : LET e == msgs[i] IN
     (e.n = 0 \/ e.perr \/ (~e.anyc /\ (e.c < 0 \/ e.c >= e.n))) => (e.out = "error" /\ e.wire = -1 /\ e.stage = "failed")
\* the partitioner is never asked to choose among zero partitions
NeverOfferedNothing == \A i \in DOMAIN msgs : msgs[i].called => msgs[i].n > 0
TypeOK == cursor \in 0 .. (MaxNP + 1)

(* ---------- role 2: terminal states as scenarios ---------- *)
SetSeq(S) == [k \in 1 .. Cardinality(S) |-> Nth(S, k - 1)]
MsgJson(e) == [keyed |-> e.in.keyed, part |-> e.in.part, sc |-> e.in.sc, want |-> e.in.want,
               xn |-> e.n, xout |-> e.out, xtarget |-> e.target, xwhy |-> e.why]
Emit ==
  (EmitCases /\ Len(msgs) = MaxMsgs /\ \A i \in DOMAIN msgs : Done(msgs[i])) =>
     PrintT(<<"CASE", ToJson([fam |-> "prod", np |-> np, leaderless |-> SetSeq(L), pk |-> pk,
                              static |-> Info(pk).static, dyn |-> Info(pk).dyn,
                              msgs |-> [i \in 1 .. Len(msgs) |-> MsgJson(msgs[i])]])>>)
=============================================================================
