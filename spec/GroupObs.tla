------------------------------ MODULE GroupObs ------------------------------
(* C07 observer: the life-cycle clauses of a consumer-group session as ONE pure step
   function  ObsStep(o, e)  over API-level events. It is used twice:

     * spec/GroupTrace.tla folds it over what the REAL consumerGroup did (events recorded
       by harness/inpkg/group_test.go: handler call log, driver log, every group request
       as seen by the simulated coordinator) -- the verdict of the check;
     * spec/Group.tla composes it with the model of the component (every model action
       emits the same events), so TLC proves exhaustively that the modelled life-cycle
       never violates a clause, and that broken variants do (non-vacuity).

   o.bad is the set of clause names that are false AT THIS EVENT (total observer: it never
   blocks; after a violation it follows what the code did).

   Events (field sets are fixed; c = client "c1"/"c2", p = partition number, mid = member id)
     reset        initial (-1 newest / -2 oldest), loglen, logstart, auto ("fast"|"slow"|"off"), oretry (Offsets.Retry.Max),
                  hbretry (Metadata.Retry.Max used by the heartbeat loop), committed <<off..>>
     consume_call c            consume_ret c, err          cancel c
     close_call c              close_ret c, err
     setup c, mid, gen, claims <<p..>>
     claim_start c, p, init    msg c, p, off     mark c, p, off    claim_ret c, p
     cleanup c
     join_req c, mid           join_resp c, err, mid, gen
     sync_req c, mid, gen      sync_resp c, err, claims
     hb c, mid, gen, err       commit c, mid, gen, err, blocks <<<<p, off>>..>>, applied
     leave c, mid, err         meta_change      hang c, what     panic c
     sync_plan c, strategy, plan <<<<client, p>>..>>, parts <<p..>>, members <<client..>>, unknown, nosub, foreign
                               the assignments of the leader's SyncGroup request (clause sync_plan_complete, property C08)
     coord_down                the coordinator (and seed broker) became unreachable: premise of final_commit_after_cleanup gone
     cleanup_wait c, hbs, expired   end of a long Cleanup that waited for heartbeats (clause heartbeats_until_final_commit)
     ofetch_fail c, kind, n    n-th refused initial OffsetFetch of the call (clause setup_within_retry_budget: n <= Metadata.Retry.Max + 1)
     setup_fail c              the handler's Setup returns an error: the session ends in set-up (no claim starts; the code runs
                               Cleanup and Consume returns the error). ofetch_fail c, kind (the session's initial OffsetFetch is
                               refused: no Setup at all, Consume returns the error) needs no clause of its own
     claim_fail c, p           the simulated broker failed the ListOffsets call of a claim's start (data-plane fault):
                               the claim cannot start, which ends the session like a claim that returned
     (anything else is ignored)

   Clauses
     setup_once_before_claims, at_most_one_claim_per_partition, exactly_one_claim_unless_ending,
     claim_starts_at_committed_or_initial, cleanup_once_after_claims_returned,
     final_commit_after_cleanup, consume_returns_last, requests_carry_issued_identity,
     fenced_member_rejoins_fresh, no_skip_across_sessions, consume_hang, close_hang, consume_panic,
     identity_kept_unless_fenced (a JoinGroup carries the id of the client's last successful join unless an UNKNOWN_MEMBER_ID or
     ILLEGAL_GENERATION answer reached the client since, or it left), leave_on_close (Close of a member holding such an id sends
     LeaveGroup; premise: coordinator reachable), final commit after a coordinator move reaches the new coordinator,
     channels_closed_after_close (Close returned but the Errors() channel was never closed: the driver drains it
     after every Close and the watchdog reports hang{what: "errors_not_closed"}; errors_closed c is the good case) *)
EXTENDS Integers, Sequences, FiniteSets

OC == {"c1", "c2", "c3"}
OP == 0..4
NoPair == <<"", -1>>

ToSetO(s) == {s[k] : k \in DOMAIN s}
W(cond, name) == IF cond THEN {name} ELSE {}
MaxOf(S) == CHOOSE x \in S : \A y \in S : y <= x

ObsInit ==
  [initial |-> -2, loglen |-> 0, logstart |-> 0, auto |-> "fast", hbretry |-> 0,
   store |-> [p \in OP |-> -1],
   ph |-> [c \in OC |-> "out"],              \* out | called | setup | cleanup  (per Consume call)
   claims |-> [c \in OC |-> {}],
   started |-> [c \in OC |-> {}],
   returned |-> [c \in OC |-> {}],
   cancelled |-> [c \in OC |-> FALSE],       \* sticky
   closed |-> [c \in OC |-> FALSE],          \* sticky
   sessEnd |-> [c \in OC |-> FALSE],         \* heartbeat verdict / a claim returned, in this call
   metaChanged |-> FALSE,
   hbconn |-> [c \in OC |-> 0],              \* consecutive heartbeats lost
   nextoff |-> [c \in OC |-> [p \in OP |-> -1]],
   first |-> [c \in OC |-> [p \in OP |-> FALSE]],
   marks |-> [c \in OC |-> [p \in OP |-> {}]],
   sent |-> [c \in OC |-> [p \in OP |-> {}]], \* offsets carried by commit requests after Cleanup
   acc |-> [c \in OC |-> [p \in OP |-> {}]],  \* offsets the coordinator stored during this call
   cur |-> [c \in OC |-> NoPair],            \* identity the coordinator issued last
   ids |-> [c \in OC |-> {}],                \* member ids ever issued to the client
   fenced |-> [c \in OC |-> FALSE],          \* last join/sync answer was UNKNOWN_MEMBER_ID
   idfree |-> [c \in OC |-> FALSE],          \* an UNKNOWN_MEMBER_ID / ILLEGAL_GENERATION answer reached the client since its last
                                             \* successful join (the code may drop the member id), or it left the group
   closeret |-> [c \in OC |-> FALSE],        \* Close of the client's group has returned
   hbstop |-> [c \in OC |-> FALSE],          \* a heartbeat of this call got an answer other than OK (the loop may have ended by it)
   connlost |-> [c \in OC |-> FALSE],        \* the coordinator dropped a connection of the client since its last successful join
                                             \* (its next request may die on the dead connection before it is seen)
   left |-> [c \in OC |-> FALSE],            \* a LeaveGroup request was seen since the last successful join
   nstale |-> [c \in OC |-> 0],              \* commit requests after Cleanup that went to a broker that is not the coordinator
   oretry |-> 3,                             \* Consumer.Offsets.Retry.Max: the final commit has oretry + 1 attempts
   nfin |-> [c \in OC |-> 0],                \* commit requests seen after Cleanup in this call
   nconn |-> [c \in OC |-> 0],               \* requests of this call that were dropped (an attempt can be lost unseen)
   leaderless |-> -1,                        \* partition the metadata lists without a leader (its claim cannot start)
   cdown |-> FALSE,                          \* the coordinator was made unreachable (no commit can arrive)
   hung |-> FALSE,                           \* the watchdog fired: the scenario is torn down by force afterwards
   bad |-> {}]

\* the offset a claim has to start at: the committed one when it exists and is in range
Expected(o, p) ==
  LET s == o.store[p] IN IF s >= o.logstart /\ s <= o.loglen THEN s ELSE o.initial
\* first record offset a claim with that initial offset delivers
Resolve(o, init) == IF init >= 0 THEN init ELSE IF init = -2 THEN o.logstart ELSE o.loglen

Ending(o, c) == o.cancelled[c] \/ o.closed[c] \/ o.sessEnd[c] \/ o.metaChanged

HandlerWhileOut(o, c) == W(o.ph[c] = "out", "consume_returns_last")

OReset(o, e) ==
  [ObsInit EXCEPT !.initial = e.initial, !.loglen = e.loglen, !.logstart = e.logstart,
                  !.auto = e.auto, !.hbretry = e.hbretry,
                  !.oretry = IF "oretry" \in DOMAIN e THEN e.oretry ELSE 3,
                  !.leaderless = IF "leaderless" \in DOMAIN e THEN e.leaderless ELSE -1,
                  !.store = [p \in OP |-> IF p + 1 \in DOMAIN e.committed THEN e.committed[p + 1] ELSE -1]]

OConsumeCall(o, e) ==
  LET c == e.c IN
  [o EXCEPT !.ph[c] = "called", !.claims[c] = {}, !.started[c] = {}, !.returned[c] = {},
            !.sessEnd[c] = FALSE, !.hbconn[c] = 0, !.nfin[c] = 0, !.nconn[c] = 0, !.nstale[c] = 0, !.hbstop[c] = FALSE,
            !.nextoff[c] = [p \in OP |-> -1], !.first[c] = [p \in OP |-> FALSE],
            !.marks[c] = [p \in OP |-> {}], !.sent[c] = [p \in OP |-> {}], !.acc[c] = [p \in OP |-> {}],
            !.bad = {}]

OSetup(o, e) ==
  LET c == e.c IN
  [o EXCEPT !.ph[c] = "setup", !.claims[c] = ToSetO(e.claims),
            \* a claim on the leaderless partition cannot start (code behaviour: ConsumePartition fails): the session ends by it
            !.sessEnd[c] = @ \/ (o.leaderless \in ToSetO(e.claims)),
            !.bad = HandlerWhileOut(o, c) \cup W(o.ph[c] \in {"setup", "cleanup"}, "setup_once_before_claims")]

OClaimStart(o, e) ==
  LET c == e.c
      p == e.p IN
  [o EXCEPT !.started[c] = @ \cup {p},
            !.nextoff[c][p] = Resolve(o, e.init), !.first[c][p] = TRUE,
            !.bad = HandlerWhileOut(o, c)
                    \cup W(o.ph[c] = "called", "setup_once_before_claims")
                    \cup W(o.ph[c] = "cleanup", "cleanup_once_after_claims_returned")
                    \cup W(o.ph[c] = "setup" /\ (p \notin o.claims[c] \/ p \in o.started[c]), "at_most_one_claim_per_partition")
                    \cup W(e.init # Expected(o, p), "claim_starts_at_committed_or_initial")]

OMsg(o, e) ==
  LET c == e.c
      p == e.p IN
  [o EXCEPT !.nextoff[c][p] = e.off + 1, !.first[c][p] = FALSE,
            !.bad = HandlerWhileOut(o, c)
                    \cup W(o.nextoff[c][p] >= 0 /\ e.off # o.nextoff[c][p],
                           IF o.first[c][p] THEN "claim_starts_at_committed_or_initial" ELSE "no_skip_across_sessions")]

OMark(o, e) == [o EXCEPT !.marks[e.c][e.p] = @ \cup {e.off}, !.bad = {}]

OClaimRet(o, e) ==
  [o EXCEPT !.returned[e.c] = @ \cup {e.p}, !.sessEnd[e.c] = TRUE, !.bad = HandlerWhileOut(o, e.c)]

OCleanup(o, e) ==
  LET c == e.c IN
  [o EXCEPT !.ph[c] = IF @ = "out" THEN "out" ELSE "cleanup",
            !.bad = HandlerWhileOut(o, c)
                    \cup W(o.ph[c] = "called", "setup_once_before_claims")
                    \cup W(o.ph[c] = "cleanup", "cleanup_once_after_claims_returned")
                    \cup W(o.ph[c] = "setup" /\ ~(o.started[c] \subseteq o.returned[c]), "cleanup_once_after_claims_returned")
                    \* (hbstop: a heartbeat of this call was lost or refused. The heartbeat loop's remaining attempts can then
                    \* die on the torn-down connection before the coordinator sees them - the loop closes and reopens the
                    \* coordinator's Broker while the session set-up uses the same Broker, cf. F-C15-open-window - so the
                    \* budget of Metadata.Retry.Max + 1 attempts may be used up although fewer losses were SEEN: the session
                    \* may be ending.)
                    \cup W(o.ph[c] = "setup" /\ o.claims[c] \ o.started[c] # {} /\ ~Ending(o, c) /\ ~o.hbstop[c],
                           "exactly_one_claim_unless_ending")]

\* with auto-commit on: the coordinator stored the highest mark of every claimed partition (before or after Cleanup), or
\* the final commit used its whole budget of Consumer.Offsets.Retry.Max + 1 attempts after Cleanup without being accepted
\* (requests dropped with the connection count for the budget: an attempt can then be lost before it is seen);
\* with the ticker out of the way (auto "slow") there are never more than that many attempts
FinalCommitOk(o, c) ==
  /\ \A p \in o.claims[c] :
       o.marks[c][p] # {} =>
          \/ MaxOf(o.marks[c][p]) \in o.acc[c][p]
          \/ o.nfin[c] + o.nconn[c] >= o.oretry + 1
  /\ o.auto = "slow" => o.nfin[c] <= o.oretry + 1
  \* the coordinator moved: an attempt refused by the old broker is followed (budget permitting) by one to the new coordinator
  /\ (o.oretry >= 1 /\ o.nstale[c] >= 1 /\ o.nconn[c] = 0) => o.nfin[c] > o.nstale[c]

OConsumeRet(o, e) ==
  LET c == e.c IN
  [o EXCEPT !.ph[c] = "out",
            !.bad = W(o.ph[c] = "setup", "cleanup_once_after_claims_returned")
                    \cup W(o.ph[c] = "cleanup" /\ o.auto # "off" /\ ~o.cdown /\ ~FinalCommitOk(o, c), "final_commit_after_cleanup")]

IsStale(e) == "stale" \in DOMAIN e /\ e.stale

\* Close returned: a member that holds an id the coordinator issued (and was not told to drop it) has sent LeaveGroup
OCloseRet(o, e) ==
  LET c == e.c IN
  [o EXCEPT !.closeret[c] = TRUE,
            !.bad = W(o.cur[c] # NoPair /\ ~o.idfree[c] /\ ~o.left[c] /\ ~o.cdown /\ ~o.connlost[c], "leave_on_close")]

OJoinReq(o, e) ==
  LET c == e.c IN
  [o EXCEPT !.fenced[c] = FALSE,
            !.bad = W(e.mid # "" /\ e.mid \notin o.ids[c], "requests_carry_issued_identity")
                    \* the id the coordinator issued is kept unless a fence (or illegal-generation) answer allowed dropping it
                    \cup W(o.cur[c] # NoPair /\ ~o.idfree[c] /\ e.mid # o.cur[c][1], "identity_kept_unless_fenced")
                    \cup W(o.fenced[c] /\ e.mid # "", "fenced_member_rejoins_fresh")]

OJoinResp(o, e) ==
  LET c == e.c IN
  \* (Close waits for the running Consume - it takes the lock Consume holds - before it decides whether to send LeaveGroup:
  \* an id issued after Close has returned belongs to a member nobody will ever make leave)
  IF e.err = "ok" THEN [o EXCEPT !.cur[c] = <<e.mid, e.gen>>, !.ids[c] = @ \cup {e.mid}, !.idfree[c] = FALSE, !.left[c] = FALSE, !.connlost[c] = FALSE,
                                 !.bad = W(o.closeret[c], "leave_on_close")]
  ELSE IF e.err = "unknown" THEN [o EXCEPT !.fenced[c] = TRUE, !.idfree[c] = TRUE, !.bad = {}]
  ELSE IF e.err = "illegal" THEN [o EXCEPT !.idfree[c] = TRUE, !.bad = {}]
  ELSE [o EXCEPT !.bad = {}]

OSyncReq(o, e) ==
  [o EXCEPT !.bad = W(<<e.mid, e.gen>> # o.cur[e.c], "requests_carry_issued_identity")]

OSyncResp(o, e) ==
  IF e.err = "unknown" THEN [o EXCEPT !.fenced[e.c] = TRUE, !.idfree[e.c] = TRUE, !.bad = {}]
  ELSE IF e.err = "illegal" THEN [o EXCEPT !.idfree[e.c] = TRUE, !.bad = {}]
  ELSE [o EXCEPT !.bad = {}]

OHb(o, e) ==
  LET c == e.c
      lost == IF e.err = "conn" THEN o.hbconn[c] + 1 ELSE 0 IN
  [o EXCEPT !.hbconn[c] = lost, !.nconn[c] = IF e.err = "conn" THEN @ + 1 ELSE @,
            !.idfree[c] = @ \/ e.err \in {"unknown", "illegal"}, !.hbstop[c] = @ \/ e.err # "ok",
            !.sessEnd[c] = @ \/ (e.err \notin {"ok", "conn"}) \/ lost > o.hbretry,
            !.bad = W(<<e.mid, e.gen>> # o.cur[c], "requests_carry_issued_identity")
                    \cup W(o.ph[c] = "out", "consume_returns_last")]

OCommit(o, e) ==
  LET c == e.c
      bl == ToSetO(e.blocks)
      offs(p) == {b[2] : b \in {x \in bl : x[1] = p}} IN
  [o EXCEPT !.nfin[c] = IF o.ph[c] = "cleanup" THEN @ + 1 ELSE @,
            !.nstale[c] = IF o.ph[c] = "cleanup" /\ IsStale(e) THEN @ + 1 ELSE @,
            !.idfree[c] = @ \/ e.err \in {"unknown", "illegal"},
            !.nconn[c] = IF e.err = "conn" THEN @ + 1 ELSE @,
            !.sent[c] = IF o.ph[c] = "cleanup" THEN [p \in OP |-> o.sent[c][p] \cup offs(p)] ELSE @,
            !.acc[c] = IF e.applied THEN [p \in OP |-> o.acc[c][p] \cup offs(p)] ELSE @,
            !.store = IF e.applied THEN [p \in OP |-> IF offs(p) # {} THEN MaxOf(offs(p)) ELSE o.store[p]] ELSE @,
            !.bad = W(<<e.mid, e.gen>> # o.cur[c], "requests_carry_issued_identity")
                    \cup W(o.ph[c] = "out", "consume_returns_last")
                    \cup W(\E b \in bl : b[1] \notin OP \/ b[2] \notin o.marks[c][b[1]], "no_skip_across_sessions")]

OLeave(o, e) ==
  [o EXCEPT !.left[e.c] = TRUE, !.idfree[e.c] = @ \/ e.err \in {"ok", "unknown", "rebalance"},
            !.bad = W(e.mid \notin o.ids[e.c], "requests_carry_issued_identity")]

\* C08 on the wire: the assignments the leader hands to SyncGroup cover every partition the cluster metadata lists for
\* the subscribed topic exactly once, go only to known members subscribed to it, and name no other topic / partition
SyncPlanOk(e) ==
  LET plan == ToSetO(e.plan)
      parts == ToSetO(e.parts) IN
  /\ e.unknown = 0 /\ e.nosub = 0 /\ e.foreign = 0
  /\ \A x \in plan : x[2] \in parts /\ x[1] \in ToSetO(e.members)
  /\ \A p \in parts : Cardinality({i \in DOMAIN e.plan : e.plan[i][2] = p}) = 1

\* the watchdog found the client blocked: in Consume (or between calls), or in Close after Consume had returned
\* (a client that sits in a healthy session nobody asked to end is only collateral of somebody else's hang)
HangClause(o, e) ==
  IF e.what = "Close" THEN "close_hang"
  ELSE IF e.what = "errors_not_closed" THEN "channels_closed_after_close"
  ELSE IF o.ph[e.c] = "setup" /\ ~Ending(o, e.c) THEN "scenario_stalled"
  ELSE "consume_hang"

ConnLost(e) ==
  \/ e.ev \in {"join_resp", "sync_resp", "hb", "commit", "leave"} /\ e.err = "conn"
  \/ e.ev = "ofetch_fail" /\ e.kind = "conn"

RECURSIVE ObsStep(_, _)
ObsStep(o, e) ==
  CASE e.ev = "reset" -> OReset(o, e)
    \* a rebalance that does not settle: the n-th REBALANCE_IN_PROGRESS answer to the JoinGroup / SyncGroup requests of one
    \* Consume call - the code backs off and retries Rebalance.Retry.Max times, then Consume returns the error
    [] e.ev \in {"join_resp", "sync_resp"} /\ "n" \in DOMAIN e /\ e.n > e.max ->
         [o EXCEPT !.bad = {"rebalance_within_retry_budget"}]
    [] ConnLost(e) /\ ~o.connlost[e.c] -> ObsStep([o EXCEPT !.connlost[e.c] = TRUE], e)
    [] o.hung /\ e.ev # "reset" -> [o EXCEPT !.bad = IF e.ev = "hang" THEN {HangClause(o, e)} ELSE {}]
    [] e.ev = "consume_call" -> OConsumeCall(o, e)
    [] e.ev = "consume_ret" -> OConsumeRet(o, e)
    [] e.ev = "cancel" -> [o EXCEPT !.cancelled[e.c] = TRUE, !.bad = {}]
    [] e.ev = "close_ret" -> OCloseRet(o, e)
    [] e.ev = "close_call" -> [o EXCEPT !.closed[e.c] = TRUE, !.bad = {}]
    [] e.ev = "setup" -> OSetup(o, e)
    [] e.ev = "claim_start" -> OClaimStart(o, e)
    [] e.ev = "msg" -> OMsg(o, e)
    [] e.ev = "mark" -> OMark(o, e)
    [] e.ev = "claim_ret" -> OClaimRet(o, e)
    [] e.ev = "cleanup" -> OCleanup(o, e)
    [] e.ev = "join_req" -> OJoinReq(o, e)
    [] e.ev = "join_resp" -> OJoinResp(o, e)
    [] e.ev = "sync_req" -> OSyncReq(o, e)
    [] e.ev = "sync_resp" -> OSyncResp(o, e)
    [] e.ev = "hb" -> OHb(o, e)
    [] e.ev = "commit" -> OCommit(o, e)
    [] e.ev = "leave" -> OLeave(o, e)
    [] e.ev = "meta_change" -> [o EXCEPT !.metaChanged = TRUE, !.bad = {}]
    [] e.ev = "hang" -> [o EXCEPT !.hung = TRUE, !.bad = {HangClause(o, e)}]
    [] e.ev = "sync_plan" -> [o EXCEPT !.bad = W(~SyncPlanOk(e), "sync_plan_complete")]
    [] e.ev = "coord_down" -> [o EXCEPT !.cdown = TRUE, !.bad = {}]
    \* release stops the heartbeats only after Cleanup and the final commit: a long Cleanup (measured in heartbeats: it waits for
    \* three of them, its load-aware bound of 3x the session timeout expired) saw none although no answer had ended the loop
    [] e.ev = "cleanup_wait" ->
         [o EXCEPT !.bad = W(e.expired /\ e.hbs = 0 /\ o.ph[e.c] = "cleanup" /\ ~o.hbstop[e.c] /\ ~o.cdown,
                             "heartbeats_until_final_commit")]
    \* the session's initial OffsetFetch is retried Metadata.Retry.Max times at most, then Consume returns the error
    [] e.ev = "ofetch_fail" -> [o EXCEPT !.bad = W("n" \in DOMAIN e /\ e.n > o.hbretry + 1, "setup_within_retry_budget")]
    [] e.ev = "setup_fail" -> [o EXCEPT !.sessEnd[e.c] = TRUE, !.bad = HandlerWhileOut(o, e.c)]
    [] e.ev = "claim_fail" -> [o EXCEPT !.sessEnd[e.c] = TRUE, !.bad = {}]
    [] e.ev = "panic" -> [o EXCEPT !.bad = {"consume_panic"}]
    [] OTHER -> [o EXCEPT !.bad = {}]

\* fold over a (short) sequence of events, accumulating the clause names violated
RECURSIVE ObsFold(_, _, _)
ObsFold(o, evs, acc) ==
  IF evs = <<>> THEN [o EXCEPT !.bad = acc]
  ELSE LET n == ObsStep(o, Head(evs)) IN ObsFold(n, Tail(evs), acc \cup n.bad)
=============================================================================
