--------------------------- MODULE SeqKeysTrace ---------------------------
(* C05, numbering per topic-partition (transactionManager.getAndIncrementSequenceNumber / bumpEpoch in
   async_producer.go): within an epoch every (topic, partition) pair is numbered 0, 1, 2, ... on its own; an epoch
   bump restarts every pair at 0 and increases the epoch by one. Total observer over the events recorded from the real
   transaction manager (harness/inpkg/seqkeys_test.go); events of other kinds (the simulated cluster's) are skipped. *)
EXTENDS Naturals, Integers, Sequences, FiniteSets, TLC, Json

Trace == ndJsonDeserialize("trace.ndjson")
VARIABLES l, nxt, epoch, viol, stats
vars == <<l, nxt, epoch, viol, stats>>
E == Trace[l]
Get(f, k, d) == IF k \in DOMAIN f THEN f[k] ELSE d
Put(f, k, v) == [x \in DOMAIN f \cup {k} |-> IF x = k THEN v ELSE f[x]]
V(c) == {<<E.t, E.i, c>>}
When(b, c) == IF b THEN V(c) ELSE {}

Init == l = 1 /\ nxt = <<>> /\ epoch = -1 /\ viol = {} /\ stats = [calls |-> 0, bumps |-> 0, pairs |-> 0]

TReset == E.ev = "reset" /\ nxt' = <<>> /\ epoch' = -1 /\ UNCHANGED <<viol, stats>>
TSeq ==
  /\ E.ev = "seq"
  /\ LET k == <<E.topic, E.part>> IN
     /\ viol' = viol \cup When(E.seq # Get(nxt, k, 0), "sequence_per_partition")
                     \cup When(epoch # -1 /\ E.epoch # epoch, "epoch_changes_only_by_bump")
     /\ nxt' = Put(nxt, k, E.seq + 1)
     /\ epoch' = E.epoch
     /\ stats' = [stats EXCEPT !.calls = @ + 1, !.pairs = IF k \in DOMAIN nxt THEN @ ELSE @ + 1]
TBump ==
  /\ E.ev = "bump"
  /\ nxt' = <<>> /\ epoch' = IF epoch = -1 THEN -1 ELSE epoch + 1
  /\ stats' = [stats EXCEPT !.bumps = @ + 1] /\ UNCHANGED viol
TEnd == E.ev = "end" /\ PrintT(<<"VIOL", ToJson(viol)>>) /\ PrintT(<<"STATS", ToJson(stats)>>) /\ UNCHANGED <<nxt, epoch, viol, stats>>
TOther == E.ev \notin {"reset", "seq", "bump", "end"} /\ UNCHANGED <<nxt, epoch, viol, stats>>

Next == l <= Len(Trace) /\ l' = l + 1 /\ (TReset \/ TSeq \/ TBump \/ TEnd \/ TOther)
Spec == Init /\ [][Next]_vars
Accepted == TLCGet("stats").diameter - 1 = Len(Trace)
=============================================================================
