---- MODULE MCProducer ----
(* model-checking instances of Producer: constant definitions used by cfg/MCProducer.*.cfg *)
EXTENDS Producer
AllP1 == [m \in 1..NMsgs |-> "p1"]
AltP1P2 == [m \in 1..NMsgs |-> IF m % 2 = 1 THEN "p1" ELSE "p2"]
LeadersOnB1 == [p \in Parts |-> "b1"]
LeadersSplit == [p \in Parts |-> IF p = "p1" THEN "b1" ELSE "b2"]

\* invariants checked on the pipeline model (the clauses of C01 C02 C04 C05 at model level)
AllInv == /\ OrderOK /\ NoDupOutcome /\ NoMarkerOutcome /\ NoForeign /\ NoNilDeref
          /\ QuiescentDone
IdemInv == /\ NoDoubleAppend /\ SuccessInLog /\ NoAddAssert
====
