---- MODULE MCProducer ----
(* model-checking instances of Producer: constant definitions used by cfg/MCProducer.*.cfg *)
EXTENDS Producer
AllP1 == [m \in 1..NMsgs |-> "p1"]
AltP1P2 == [m \in 1..NMsgs |-> IF m % 2 = 1 THEN "p1" ELSE "p2"]
LeadersOnB1 == [p \in Parts |-> "b1"]
LeadersSplit == [p \in Parts |-> IF p = "p1" THEN "b1" ELSE "b2"]

\* invariants checked on the pipeline model (the clauses of C01 C02 C04 C05 at model level)
AllInv == /\ OrderOK /\ NoDupOutcome /\ NoMarkerOutcome /\ NoForeign /\ NoNilDeref
          /\ QuiescentDone
IdemInv == /\ NoDoubleAppend /\ SuccessInLog /\ NoAddAssert

-----------------------------------------------------------------------------
(* Conducted replay (DESIGN.md 3.3): instances cfg/MCProducer.conduct.*.cfg record EVERY action (Record <- RecordOn)
   and restrict the interleavings to the "hook normal form", i.e. to what a conductor sitting at the hook points of
   async_producer.go can bring about on the real goroutines:
   - steps without a hook happen as soon as they are enabled (partition worker start-up, its queued sub-steps other than
     the flush of a level, the hand-over of a buffer or of a retryBatch set to the bridge goroutine);
   - a partition worker is only let go (pp.recv, pp.flush) while the broker workers it may hand something to sit idle in
     their select loop: what it offers is taken at once, and never competes with a response or a flush inside the
     worker's select (a choice of the Go runtime that no hook can steer);
   - a broker worker that holds a message (slot `in` full = the goroutine sits at bp.recv) cannot send or handle a
     response before it has dealt with that message; a response that arrived while the slot was empty is handled before
     any message that is offered later (the goroutine sits at bp.resp).
   The restriction only selects behaviours; every behaviour it generates is a behaviour of Spec. *)
RecordOn == TRUE
EmitSteps == Quiescent => PrintT(<<"CONDUCT", ToJson(steps)>>)

MaxOf(S) == CHOOSE x \in S : \A y \in S : y <= x
LastIdx(P(_)) == LET S == {k \in 1..Len(steps) : P(steps[k])} IN IF S = {} THEN 0 ELSE MaxOf(S)
\* the answer of worker i's outstanding request arrived before the message now in its slot was offered
AnswerFirst(i) == LET h == LastIdx(LAMBDA r : r.a = "handle" /\ r.bp = i)
                      s == LastIdx(LAMBDA r : r.a = "ppstep" /\ r.op = "send" /\ r.to = i)
                  IN h < s
PpStepEager(p) == /\ pp[p].todo # <<>>
                  /\ LET op == Head(pp[p].todo) IN
                     /\ op[1] # "flush"
                     /\ op[1] = "send" => bps[op[2]].in = <<>>
                     /\ (op[1] = "fwd" /\ pp[p].bp = 0) => CanGet(leader[p])
PpStartEager(p) == ~pp[p].started /\ pp[p].todo = <<>> /\ ppQ[p] # <<>> /\ CanGet(view[p])
BpSendEager(i) == bps[i].used /\ ~BufEmpty(bps[i].buffer) /\ ~bps[i].out.busy /\ bps[i].in = <<>>
RbSendEager(r) == r.stage = "send" /\ ~bps[r.target].out.busy
EagerEnabled == \/ \E p \in Parts : PpStartEager(p) \/ PpStepEager(p)
                \/ \E i \in BpIds : BpSendEager(i)
                \/ \E r \in rbs : RbSendEager(r)
EagerStep == \/ \E p \in Parts : (PpStartEager(p) /\ LPpStart(p)) \/ (PpStepEager(p) /\ LPpStep(p))
             \/ \E i \in BpIds : BpSendEager(i) /\ LBpSend(i)
             \/ \E r \in rbs : RbSendEager(r) /\ LRbSend(r)
\* a broker worker sits in its select loop (not at bp.recv with a message, not at bp.resp with an answer)
BpIdle(i) == bps[i].in = <<>> /\ ~(bps[i].out.busy /\ bps[i].out.res # "pending")
\* the workers partition p may hand something to when it is let go: they must be idle, so that what p offers is taken at
\* once and never competes (in the worker's select, decided by the Go runtime) with a response or a flush
TargetsIdle(p) == \A i \in BpIds : (bps[i].used /\ (i = pp[p].bp \/ reg[leader[p]] = i \/ reg[view[p]] = i)) => BpIdle(i)
HookStep == \/ LRhDeq
            \/ (inSlot # <<>> /\ (pp[inSlot[1].part].started \/ TargetsIdle(inSlot[1].part)) /\ LDispRecv)
            \/ \E p \in Parts : TargetsIdle(p) /\ (LPpRecv(p) \/ (pp[p].todo # <<>> /\ Head(pp[p].todo)[1] = "flush" /\ LPpStep(p)))
            \/ \E i \in BpIds : \/ (bps[i].used /\ bps[i].in # <<>> /\ (bps[i].out.busy /\ bps[i].out.res # "pending" => ~AnswerFirst(i)) /\ LBpRecv(i))
                                 \/ (bps[i].used /\ bps[i].out.busy /\ bps[i].out.res # "pending"
                                     /\ (IF bps[i].in = <<>> THEN TRUE ELSE AnswerFirst(i)) /\ LBpResp(i))
            \/ \E r \in rbs : LRbStart(r)
\* requests to one broker travel over one connection and are answered in the order they were written
SentAt(i) == LastIdx(LAMBDA r : r.a \in {"bpsend", "rbsend"} /\ r.bp = i)
FirstOnConnection(i) == \A j \in BpIds : (j # i /\ bps[j].used /\ bps[j].broker = bps[i].broker /\ bps[j].out.busy /\ bps[j].out.res = "pending")
                                          => SentAt(i) < SentAt(j)
\* the application has at most SubmitWindow messages without an outcome (NMsgs = it submits whenever it can; smaller windows
\* spread the submissions over the behaviour, so that fresh messages meet partitions that are in a retry phase or past one).
\* Instances override it with W1..W3
SubmitWindow == NMsgs
W1 == 1
W2 == 2
W3 == 3
Pending == Cardinality({m \in Msgs : m < nextSub /\ outcome[m] = "none"})
\* no partition worker is blocked handing something to a broker worker (it sits at a hook or waits for input): an answer
\* released now cannot compete with an offer inside a worker's select
NoOfferPending == \A p \in Parts : IF pp[p].todo = <<>> THEN TRUE ELSE Head(pp[p].todo)[1] = "flush"
ConductNext == IF EagerEnabled THEN EagerStep /\ UNCHANGED hist
               ELSE \/ (Pending < SubmitWindow /\ LSubmit)
                    \/ \E i \in BpIds : bps[i].used /\ bps[i].out.busy /\ bps[i].out.res = "pending" /\ NoOfferPending /\ FirstOnConnection(i)
                                         /\ LBrokerHandle(i)
                    \/ LLeaderMove
                    \/ (HookStep /\ UNCHANGED hist)
ConductSpec == Init /\ [][ConductNext]_vars
====
