------------------------------ MODULE Consumer ------------------------------
(* Implementation-shaped model of the consumer goroutine pipeline (consumer.go; DESIGN.md
   Appendix A.2): per partition the dispatcher and the responseFeeder (incl. the expiry ticker,
   the slow-reader path and re-subscription), per broker worker the subscriptionManager and the
   subscriptionConsumer (fetch, hand-off to every subscription, the acks barrier,
   handleResponses by result class, abort), redispatch with worker re-creation, AsyncClose at
   any time. Channels have their real capacities; a send on / close of a closed channel is a
   `panic` state. Log content is abstract: offsets 0..LogEnd-1, a fetch returns 1..FetchMax
   records. FixReintercept mirrors /repo: the slow path does not re-apply the interceptor chain
   to the message it was blocked on.
   Invariants: NoPanic, InOrderOnce (C03), InterceptOnce (C18), AcksSane, ClosedWhenStuck (C12). *)
EXTENDS Naturals, Sequences, FiniteSets, TLC

CONSTANTS Children, LogEnd, FetchMax, MsgCap, MaxFaults, MaxBc, MaxStalls, FixReintercept

BcIds == 1..MaxBc
VARIABLES ch,      \* [Children -> record]   partition consumers
          bc,      \* [BcIds -> record]      broker workers
          nBc, reg,\* allocated workers, registry entry for the single broker (0 = none)
          faults, stalls, panic

vars == <<ch, bc, nBc, reg, faults, stalls, panic>>

NoResp == [kind |-> "none", n |-> 0]
ChildInit == [started |-> FALSE, offset |-> 0, delivered |-> <<>>, icount |-> <<>>,
              dying |-> FALSE, trig |-> 0, trigClosed |-> FALSE,
              feedQ |-> <<>>, feedClosed |-> FALSE,
              msgsQ |-> <<>>, msgsClosed |-> FALSE,
              result |-> "nil", broker |-> 0,
              fpc |-> "idle", fmsgs |-> <<>>, first |-> TRUE, picked |-> FALSE,
              dpc |-> "wait"]
BcInit == [used |-> FALSE, mgr |-> <<>>, inputClosed |-> FALSE, subs |-> {}, pend |-> {}, acks |-> 0,
           refs |-> 0, pc |-> "loop", resp |-> [c \in Children |-> NoResp]]

Init == /\ ch = [c \in Children |-> ChildInit]
        /\ bc = [b \in BcIds |-> BcInit]
        /\ nBc = 0 /\ reg = 0 /\ faults = 0 /\ stalls = 0 /\ panic = {}

-----------------------------------------------------------------------------
\* refBrokerConsumer for the (single) broker
Ref(bcv, nb, rg) ==
  IF rg # 0 THEN <<[bcv EXCEPT ![rg].refs = @ + 1], nb, rg, rg>>
  ELSE LET id == nb + 1 IN <<[bcv EXCEPT ![id] = [BcInit EXCEPT !.used = TRUE, !.refs = 1]], id, id, id>>
CanRef == reg # 0 \/ nBc < MaxBc
Unref(b, bcv, rg) ==
  LET r == bcv[b].refs - 1 IN
  IF r = 0 THEN <<[bcv EXCEPT ![b].refs = 0, ![b].inputClosed = TRUE], IF rg = b THEN 0 ELSE rg>>
  ELSE <<[bcv EXCEPT ![b].refs = r], rg>>

ConsumePartition(c) ==
  /\ ~ch[c].started /\ CanRef
  /\ LET g == Ref(bc, nBc, reg) IN
     /\ bc' = [g[1] EXCEPT ![g[4]].mgr = Append(@, c)]
     /\ nBc' = g[2] /\ reg' = g[3]
     /\ ch' = [ch EXCEPT ![c].started = TRUE, ![c].broker = g[4]]
  /\ UNCHANGED <<faults, stalls, panic>>

AsyncClose(c) ==
  /\ ch[c].started /\ ~ch[c].dying
  /\ ch' = [ch EXCEPT ![c].dying = TRUE]
  /\ UNCHANGED <<bc, nBc, reg, faults, stalls, panic>>

\* application reads one message
Read(c) ==
  /\ ch[c].msgsQ # <<>>
  /\ ch' = [ch EXCEPT ![c].msgsQ = Tail(@), ![c].delivered = Append(@, Head(ch[c].msgsQ))]
  /\ UNCHANGED <<bc, nBc, reg, faults, stalls, panic>>

-----------------------------------------------------------------------------
(* broker worker: subscriptionConsumer loop (manager folded in: mgr is its buffer) *)
BcLoop(b) ==
  /\ bc[b].used /\ bc[b].pc = "loop"
  /\ LET B == bc[b]
         all == B.subs \cup {B.mgr[k] : k \in 1..Len(B.mgr)}
         dead == {c \in all : ch[c].dying}
         live == all \ dead
         dbl == {c \in dead : ch[c].trigClosed}
     IN
     /\ (B.mgr # <<>> \/ B.subs # {} \/ B.inputClosed)     \* otherwise blocked on bc.wait
     /\ ch' = [c \in Children |-> IF c \in dead THEN [ch[c] EXCEPT !.trigClosed = TRUE] ELSE ch[c]]
     /\ panic' = IF dbl # {} THEN panic \cup {"double close trigger (updateSubscriptions)"} ELSE panic
     /\ bc' = [bc EXCEPT ![b].mgr = <<>>, ![b].subs = live,
                         ![b].pc = IF live # {} THEN "fetch"
                                   ELSE IF B.inputClosed THEN "exit" ELSE "loop"]
  /\ UNCHANGED <<nBc, reg, faults, stalls>>

Kinds == {"ok", "redispatch", "report", "outofrange"}
BcFetch(b) ==
  /\ bc[b].used /\ bc[b].pc = "fetch"
  /\ \/ \E ks \in [bc[b].subs -> Kinds], ns \in [bc[b].subs -> 1..FetchMax] :
          LET nf == Cardinality({c \in bc[b].subs : ks[c] # "ok"}) IN
          /\ faults + nf <= MaxFaults /\ faults' = faults + nf
          /\ bc' = [bc EXCEPT ![b].resp = [c \in Children |->
                                    IF c \in bc[b].subs
                                    THEN [kind |-> ks[c],
                                          n |-> IF ks[c] = "ok"
                                                THEN (IF ch[c].offset + ns[c] <= LogEnd THEN ns[c] ELSE LogEnd - ch[c].offset)
                                                ELSE 0]
                                    ELSE NoResp],
                              ![b].pend = bc[b].subs, ![b].acks = Cardinality(bc[b].subs), ![b].pc = "handoff"]
     \/ /\ faults < MaxFaults /\ faults' = faults + 1
        /\ bc' = [bc EXCEPT ![b].pc = "abort", ![b].pend = bc[b].subs]
  /\ reg' = IF bc[b].pc = "fetch" /\ bc'[b].pc = "abort" /\ reg = b THEN 0 ELSE reg
  /\ UNCHANGED <<ch, nBc, stalls, panic>>

BcHandOff(b, c) ==
  /\ bc[b].used /\ bc[b].pc = "handoff" /\ c \in bc[b].pend
  /\ IF ch[c].feedClosed
     THEN /\ panic' = panic \cup {"send on closed feeder"} /\ UNCHANGED ch
     ELSE /\ ch[c].feedQ = <<>>
          /\ ch' = [ch EXCEPT ![c].feedQ = <<bc[b].resp[c]>>]
          /\ UNCHANGED panic
  /\ bc' = [bc EXCEPT ![b].pend = @ \ {c},
                      ![b].pc = IF bc[b].pend = {c} THEN "waitacks" ELSE "handoff"]
  /\ UNCHANGED <<nBc, reg, faults, stalls>>

\* acks.Wait() then handleResponses, one subscription at a time
BcWaitAcks(b) ==
  /\ bc[b].used /\ bc[b].pc = "waitacks" /\ bc[b].acks = 0
  /\ bc' = [bc EXCEPT ![b].pc = "handle", ![b].pend = bc[b].subs]
  /\ UNCHANGED <<ch, nBc, reg, faults, stalls, panic>>

BcHandle(b, c) ==
  /\ bc[b].used /\ bc[b].pc = "handle" /\ c \in bc[b].pend
  /\ LET r == ch[c].result
         last == bc[b].pend = {c}
         npc == IF last THEN "loop" ELSE "handle"
     IN
     CASE r = "nil" ->
            /\ ch' = ch /\ panic' = panic
            /\ bc' = [bc EXCEPT ![b].pend = @ \ {c}, ![b].pc = npc]
       [] r = "timedout" ->
            /\ ch' = [ch EXCEPT ![c].result = "nil"] /\ panic' = panic
            /\ bc' = [bc EXCEPT ![b].pend = @ \ {c}, ![b].subs = @ \ {c}, ![b].pc = npc]
       [] r = "outofrange" ->
            /\ ch' = [ch EXCEPT ![c].result = "nil", ![c].trigClosed = TRUE]
            /\ panic' = IF ch[c].trigClosed THEN panic \cup {"double close trigger (outofrange)"} ELSE panic
            /\ bc' = [bc EXCEPT ![b].pend = @ \ {c}, ![b].subs = @ \ {c}, ![b].pc = npc]
       [] r \in {"redispatch", "report"} ->
            IF ch[c].trigClosed
            THEN /\ panic' = panic \cup {"send on closed trigger (handleResponses)"}
                 /\ ch' = [ch EXCEPT ![c].result = "nil"]
                 /\ bc' = [bc EXCEPT ![b].pend = @ \ {c}, ![b].subs = @ \ {c}, ![b].pc = npc]
            ELSE /\ ch[c].trig = 0          \* capacity 1: blocks otherwise
                 /\ ch' = [ch EXCEPT ![c].result = "nil", ![c].trig = 1]
                 /\ panic' = panic
                 /\ bc' = [bc EXCEPT ![b].pend = @ \ {c}, ![b].subs = @ \ {c}, ![b].pc = npc]
  /\ UNCHANGED <<nBc, reg, faults, stalls>>

\* abort(): error + trigger to every subscription, then to late arrivals until input closes
BcAbortOne(b, c) ==
  /\ bc[b].used /\ bc[b].pc = "abort" /\ c \in bc[b].pend
  /\ IF ch[c].trigClosed
     THEN /\ panic' = panic \cup {"send on closed trigger (abort)"} /\ UNCHANGED ch
     ELSE /\ ch[c].trig = 0
          /\ ch' = [ch EXCEPT ![c].trig = 1]
          /\ UNCHANGED panic
  /\ bc' = [bc EXCEPT ![b].pend = @ \ {c}, ![b].subs = @ \ {c}]
  /\ UNCHANGED <<nBc, reg, faults, stalls>>
BcAbortLate(b) ==
  /\ bc[b].used /\ bc[b].pc = "abort" /\ bc[b].pend = {}
  /\ IF bc[b].mgr # <<>>
     THEN /\ bc' = [bc EXCEPT ![b].pend = {bc[b].mgr[k] : k \in 1..Len(bc[b].mgr)}, ![b].mgr = <<>>]
     ELSE /\ bc[b].inputClosed
          /\ bc' = [bc EXCEPT ![b].pc = "exit"]
  /\ UNCHANGED <<ch, nBc, reg, faults, stalls, panic>>

-----------------------------------------------------------------------------
(* responseFeeder *)
FeederRecv(c) ==
  /\ ch[c].fpc = "idle" /\ ch[c].feedQ # <<>>
  /\ LET r == ch[c].feedQ[1]
         ms == [k \in 1..r.n |-> ch[c].offset + k - 1]
         b == ch[c].broker
     IN
     /\ IF r.kind = "ok" /\ r.n > 0
        THEN /\ ch' = [ch EXCEPT ![c].feedQ = <<>>, ![c].offset = @ + r.n, ![c].result = "nil",
                                 ![c].fmsgs = ms, ![c].fpc = "feeding", ![c].first = TRUE]
             /\ UNCHANGED bc
        ELSE \* nothing to feed: acks.Done() right away
             /\ ch' = [ch EXCEPT ![c].feedQ = <<>>, ![c].result = IF r.kind = "ok" THEN "nil" ELSE r.kind]
             /\ IF b = 0 THEN bc' = bc ELSE bc' = [bc EXCEPT ![b].acks = @ - 1]
     /\ panic' = IF b = 0 /\ ~(r.kind = "ok" /\ r.n > 0) THEN panic \cup {"nil broker in feeder"} ELSE panic
  /\ UNCHANGED <<nBc, reg, faults, stalls>>

Icount(c, o) == IF o \in DOMAIN ch[c].icount THEN ch[c].icount[o] ELSE 0
Bumped(c, o) == [x \in DOMAIN ch[c].icount \cup {o} |-> IF x = o THEN Icount(c, o) + 1 ELSE ch[c].icount[x]]

\* interceptors are applied when the message is picked up (before the select)
FeedOne(c) ==
  /\ ch[c].fpc = "feeding" /\ ch[c].fmsgs # <<>>
  /\ LET o == Head(ch[c].fmsgs)
         b == ch[c].broker
         lastOne == Len(ch[c].fmsgs) = 1
     IN
     \/ /\ ch[c].dying        \* case <-child.dying: acks.Done(); drop the rest
        /\ ch' = [ch EXCEPT ![c].fmsgs = <<>>, ![c].fpc = "idle", ![c].picked = FALSE]
        /\ bc' = [bc EXCEPT ![b].acks = @ - 1]
     \/ /\ Len(ch[c].msgsQ) < MsgCap + 1     \* MsgCap buffered + one the reader is about to take
        /\ ch' = [ch EXCEPT ![c].msgsQ = Append(@, o), ![c].fmsgs = Tail(@), ![c].first = TRUE, ![c].picked = FALSE,
                            ![c].icount = IF ~ch[c].picked THEN Bumped(c, o) ELSE @,
                            ![c].fpc = IF lastOne THEN "idle" ELSE "feeding"]
        /\ bc' = IF lastOne THEN [bc EXCEPT ![b].acks = @ - 1] ELSE bc
  /\ UNCHANGED <<nBc, reg, faults, stalls, panic>>

\* expiry ticker fires while the reader is not taking the message
Tick(c) ==
  /\ ch[c].fpc = "feeding" /\ ch[c].fmsgs # <<>> /\ Len(ch[c].msgsQ) >= MsgCap + 1
  /\ stalls < MaxStalls /\ stalls' = stalls + 1
  /\ LET o == Head(ch[c].fmsgs) b == ch[c].broker IN
     IF ch[c].first
     THEN /\ ch' = [ch EXCEPT ![c].first = FALSE, ![c].picked = TRUE,
                              ![c].icount = IF ~ch[c].picked THEN Bumped(c, o) ELSE @]
          /\ UNCHANGED bc
     ELSE /\ ch' = [ch EXCEPT ![c].result = "timedout", ![c].fpc = "remaining"]
          /\ bc' = [bc EXCEPT ![b].acks = @ - 1]
  /\ UNCHANGED <<nBc, reg, faults, panic>>

\* slow path: blocking hand-over of the rest (interceptors applied again to each, incl. the blocked one)
FeedRemaining(c) ==
  /\ ch[c].fpc = "remaining"
  /\ IF ch[c].fmsgs = <<>>
     THEN /\ ch' = [ch EXCEPT ![c].fpc = "resub", ![c].picked = FALSE]
     ELSE LET o == Head(ch[c].fmsgs) IN
          \/ /\ ch[c].dying /\ ch' = [ch EXCEPT ![c].fmsgs = <<>>, ![c].fpc = "resub", ![c].picked = FALSE]
          \/ /\ Len(ch[c].msgsQ) < MsgCap + 1
             /\ ch' = [ch EXCEPT ![c].msgsQ = Append(@, o), ![c].fmsgs = Tail(@), ![c].picked = FALSE,
                                 ![c].icount = IF FixReintercept /\ ch[c].picked THEN @ ELSE Bumped(c, o)]
  /\ UNCHANGED <<bc, nBc, reg, faults, stalls, panic>>

Resub(c) ==
  /\ ch[c].fpc = "resub"
  /\ LET b == ch[c].broker IN
     IF b = 0 THEN /\ panic' = panic \cup {"nil broker at resubscribe"} /\ UNCHANGED bc
     ELSE IF bc[b].inputClosed THEN /\ panic' = panic \cup {"send on closed broker input"} /\ UNCHANGED bc
     ELSE /\ bc' = [bc EXCEPT ![b].mgr = Append(@, c)] /\ UNCHANGED panic
  /\ ch' = [ch EXCEPT ![c].fpc = "idle", ![c].first = TRUE]
  /\ UNCHANGED <<nBc, reg, faults, stalls>>

FeederExit(c) ==
  /\ ch[c].fpc = "idle" /\ ch[c].feedQ = <<>> /\ ch[c].feedClosed /\ ~ch[c].msgsClosed
  /\ ch' = [ch EXCEPT ![c].msgsClosed = TRUE, ![c].fpc = "exit"]
  /\ UNCHANGED <<bc, nBc, reg, faults, stalls, panic>>

-----------------------------------------------------------------------------
(* dispatcher *)
DispTrigger(c) ==
  /\ ch[c].started /\ ch[c].dpc = "wait" /\ ch[c].trig = 1
  /\ ch' = [ch EXCEPT ![c].trig = 0, ![c].dpc = "select"]
  /\ UNCHANGED <<bc, nBc, reg, faults, stalls, panic>>

DispDying(c) ==
  /\ ch[c].dpc = "select" /\ ch[c].dying
  /\ ch' = [ch EXCEPT ![c].trigClosed = TRUE, ![c].dpc = "wait"]
  /\ panic' = IF ch[c].trigClosed THEN panic \cup {"double close trigger (dispatcher)"} ELSE panic
  /\ UNCHANGED <<bc, nBc, reg, faults, stalls>>

\* backoff elapsed: unref old worker, find leader, subscribe
DispRedispatch(c) ==
  /\ ch[c].dpc = "select"
  /\ LET u == IF ch[c].broker # 0 THEN Unref(ch[c].broker, bc, reg) ELSE <<bc, reg>> IN
     \/ \* metadata refresh / leader lookup fails: error + self-trigger
        /\ faults < MaxFaults /\ faults' = faults + 1
        /\ bc' = u[1] /\ reg' = u[2] /\ UNCHANGED nBc
        /\ IF ch[c].trigClosed
           THEN /\ panic' = panic \cup {"send on closed trigger (dispatcher)"}
                /\ ch' = [ch EXCEPT ![c].broker = 0, ![c].dpc = "wait"]
           ELSE /\ ch[c].trig = 0
                /\ ch' = [ch EXCEPT ![c].broker = 0, ![c].dpc = "wait", ![c].trig = 1]
                /\ UNCHANGED panic
     \/ /\ (u[2] # 0 \/ nBc < MaxBc)
        /\ LET g == Ref(u[1], nBc, u[2]) IN
           /\ bc' = [g[1] EXCEPT ![g[4]].mgr = Append(@, c)]
           /\ nBc' = g[2] /\ reg' = g[3]
           /\ ch' = [ch EXCEPT ![c].broker = g[4], ![c].dpc = "wait"]
        /\ UNCHANGED <<faults, panic>>
  /\ UNCHANGED stalls

DispExit(c) ==
  /\ ch[c].dpc = "wait" /\ ch[c].trig = 0 /\ ch[c].trigClosed
  /\ LET u == IF ch[c].broker # 0 THEN Unref(ch[c].broker, bc, reg) ELSE <<bc, reg>> IN
     /\ bc' = u[1] /\ reg' = u[2]
  /\ ch' = [ch EXCEPT ![c].dpc = "exit", ![c].feedClosed = TRUE]
  /\ UNCHANGED <<nBc, faults, stalls, panic>>

-----------------------------------------------------------------------------
Next ==
  \/ \E c \in Children : ConsumePartition(c) \/ AsyncClose(c) \/ Read(c)
                        \/ FeederRecv(c) \/ FeedOne(c) \/ Tick(c) \/ FeedRemaining(c) \/ Resub(c) \/ FeederExit(c)
                        \/ DispTrigger(c) \/ DispDying(c) \/ DispRedispatch(c) \/ DispExit(c)
  \/ \E b \in BcIds : BcLoop(b) \/ BcFetch(b) \/ BcWaitAcks(b) \/ BcAbortLate(b)
  \/ \E b \in BcIds, c \in Children : BcHandOff(b, c) \/ BcHandle(b, c) \/ BcAbortOne(b, c)
Spec == Init /\ [][Next]_vars

-----------------------------------------------------------------------------
NoPanic == panic = {}
\* delivered + queued + being fed is always 0,1,2,... without gap or repetition
Stream(c) == ch[c].delivered \o ch[c].msgsQ
InOrderOnce == \A c \in Children : \A k \in 1..Len(Stream(c)) : Stream(c)[k] = k - 1
InterceptOnce == \A c \in Children : \A o \in DOMAIN ch[c].icount : ch[c].icount[o] <= 1
AcksSane == \A b \in BcIds : bc[b].acks <= Cardinality(Children)
\* a state with nothing left to do: if close was requested the output must be closed
Stuck == ~ENABLED Next
ClosedWhenStuck == Stuck => \A c \in Children : (ch[c].dying /\ ch[c].started) => ch[c].msgsClosed
ProgressWhenStuck == Stuck => \A c \in Children : (ch[c].started /\ ~ch[c].dying /\ faults < MaxFaults) => TRUE
=============================================================================
