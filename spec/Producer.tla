------------------------------ MODULE Producer ------------------------------
(* Implementation-shaped model of the AsyncProducer pipeline (async_producer.go, produce_set.go)
   and of the Kafka broker rules it talks to (DESIGN.md Appendix A.1).

   One action = one goroutine consuming one item and running to its next blocking point:
   dispatcher (DispRecv), retry handler (RhDeq), partition worker (PpStart, PpRecv and its
   queued sub-steps PpStep: send / unref / fwd / flush / done), broker worker (BpRecv, BpSend,
   BpResp), the idempotent retryBatch goroutine (RbStart, RbSend), the broker (BrokerHandle:
   per-partition ok / retriable with or without append / fatal, connection loss before or after
   the append, NOT_LEADER for partitions it does not lead, producer epoch/sequence/dedup-window
   rules) and leader moves. Deliberate deviations of the code are modelled as they are and
   switched by constants that mirror the state of /repo: FixFlushSeq (sequence numbers are
   assigned to fresh messages parked during a retry), FixRbAll (retryBatch fails the whole
   exhausted batch, not only its first message).

   Roles: exhaustive model checking of the properties' invariants (cfg/Producer.*.cfg) and
   generation of environment behaviours (hist: Submit / broker decision / leader move, in the
   order the model takes them) that harness/inpkg/prod_driver_test.go replays on the real
   producer.                                                                               *)
EXTENDS Naturals, Sequences, FiniteSets, TLC, Json

CONSTANTS NMsgs, Parts, PartOf, Brokers, InitLeader, RetryMax, MaxFaults, MaxMoves, MaxBp,
          Idem, FixFlushSeq, FixRbAll

Msgs == 1..NMsgs
BpIds == 1..MaxBp
Levels == 0..RetryMax

VARIABLES nextSub, inSlot, retryQ, ppQ, pp, bps, nBp, reg, leader, view, log, outcome, bad,
          inFlight, faults, moves,
          txn,      \* [epoch, seq : [Parts -> Nat]]
          rbs,      \* set of retryBatch goroutines
          pstate,   \* broker: [Parts -> [epoch, next, win]]   next = last sequence + 1
          hist,     \* environment actions taken so far (behaviour generation; hidden by VIEW)
          steps     \* EVERY action taken so far, in order, with the identity a hook can recognise (conducted
                    \* replay, DESIGN.md 3.3); stays <<>> unless an instance overrides Record; hidden by VIEW

vars == <<nextSub, inSlot, retryQ, ppQ, pp, bps, nBp, reg, leader, view, log, outcome, bad,
          inFlight, faults, moves, txn, rbs, pstate, hist, steps>>
ModelView == <<nextSub, inSlot, retryQ, ppQ, pp, bps, nBp, reg, leader, view, log, outcome, bad,
          inFlight, faults, moves, txn, rbs, pstate>>

Msg(id, p, r, f) == [id |-> id, part |-> p, retries |-> r, flag |-> f, seq |-> 0, ep |-> 0, hs |-> FALSE]

EmptyBuf == [p \in Parts |-> <<>>]
NoBid == [p \in Parts |-> [e |-> 0, f |-> 0]]
NoOut == [busy |-> FALSE, set |-> EmptyBuf, bid |-> NoBid, res |-> "none", kinds |-> [p \in Parts |-> "none"]]

BpRec(u, b, ep) == [used |-> u, broker |-> b, in |-> <<>>, buffer |-> EmptyBuf, bepoch |-> ep, out |-> NoOut,
                    closing |-> FALSE, cur |-> [p \in Parts |-> FALSE], refs |-> 0,
                    abandoned |-> FALSE, inputClosed |-> FALSE]
AnyBroker == CHOOSE b \in Brokers : TRUE

Init ==
  /\ nextSub = 1 /\ inSlot = <<>> /\ retryQ = <<>>
  /\ ppQ = [p \in Parts |-> <<>>]
  /\ pp = [p \in Parts |-> [hwm |-> 0, buf |-> [l \in Levels |-> <<>>], chaser |-> [l \in Levels |-> FALSE],
                            bp |-> 0, started |-> FALSE, todo |-> <<>>]]
  /\ bps = [i \in BpIds |-> BpRec(FALSE, AnyBroker, 0)]
  /\ nBp = 0
  /\ reg = [b \in Brokers |-> 0]
  /\ leader = InitLeader /\ view = InitLeader
  /\ log = [p \in Parts |-> <<>>]
  /\ outcome = [m \in Msgs |-> "none"]
  /\ bad = {}
  /\ inFlight = 0 /\ faults = 0 /\ moves = 0
  /\ txn = [epoch |-> 0, seq |-> [p \in Parts |-> 0]]
  /\ rbs = {}
  /\ pstate = [p \in Parts |-> [epoch |-> 0, next |-> 0, win |-> <<>>]]
  /\ hist = <<>>
  /\ steps = <<>>

-----------------------------------------------------------------------------
RECURSIVE ApplyOutcome(_, _, _, _)
ApplyOutcome(oc, bd, ms, kind) ==
  IF ms = <<>> THEN <<oc, bd>>
  ELSE LET m == Head(ms) IN
       IF m.id = 0 THEN ApplyOutcome(oc, bd \cup {"marker"}, Tail(ms), kind)
       ELSE IF oc[m.id] # "none" THEN ApplyOutcome(oc, bd \cup {"dup_outcome"}, Tail(ms), kind)
       ELSE ApplyOutcome([oc EXCEPT ![m.id] = kind], bd, Tail(ms), kind)

Requeue(ms) == SelectSeq(ms, LAMBDA m : m.retries < RetryMax)
Exhausted(ms) == SelectSeq(ms, LAMBDA m : m.retries >= RetryMax)
Bump(ms) == [k \in 1..Len(ms) |-> [ms[k] EXCEPT !.retries = @ + 1]]
NumSeq(ms) == Len(SelectSeq(ms, LAMBDA m : m.hs))
\* returnError on each message of ms: every sequenced one bumps the epoch and zeroes all sequences
TxnAfterErrors(t, ms) ==
  IF NumSeq(ms) = 0 THEN t
  ELSE [epoch |-> t.epoch + NumSeq(ms), seq |-> [p \in Parts |-> 0]]

RECURSIVE Flatten(_, _)
Flatten(f, ps) == IF ps = <<>> THEN <<>> ELSE f[Head(ps)] \o Flatten(f, Tail(ps))
RECURSIVE SetToSeqs(_)
SetToSeqs(S) == IF S = {} THEN {<<>>}
                ELSE UNION { {<<x>> \o s : s \in SetToSeqs(S \ {x})} : x \in S }
PartOrders == SetToSeqs(Parts)
Ids(ms) == [k \in 1..Len(ms) |-> ms[k].id]

-----------------------------------------------------------------------------
Submit ==
  /\ nextSub <= NMsgs /\ inSlot = <<>>
  /\ inSlot' = <<Msg(nextSub, PartOf[nextSub], 0, "none")>>
  /\ nextSub' = nextSub + 1
  /\ hist' = Append(hist, [a |-> "submit", id |-> nextSub, part |-> PartOf[nextSub]])
  /\ UNCHANGED <<retryQ, ppQ, pp, bps, nBp, reg, leader, view, log, outcome, bad, inFlight, faults, moves, txn, rbs, pstate>>

RhDeq ==
  /\ retryQ # <<>> /\ inSlot = <<>>
  /\ inSlot' = <<Head(retryQ)>> /\ retryQ' = Tail(retryQ)
  /\ UNCHANGED <<nextSub, ppQ, pp, bps, nBp, reg, leader, view, log, outcome, bad, inFlight, faults, moves, txn, rbs, pstate>>

DispRecv ==
  /\ inSlot # <<>>
  /\ LET m == inSlot[1] IN
     /\ ppQ' = [ppQ EXCEPT ![m.part] = Append(@, m)]
     /\ inFlight' = IF m.retries = 0 THEN inFlight + 1 ELSE inFlight
  /\ inSlot' = <<>>
  /\ UNCHANGED <<nextSub, retryQ, pp, bps, nBp, reg, leader, view, log, outcome, bad, faults, moves, txn, rbs, pstate>>

-----------------------------------------------------------------------------
GetBp(b, bpsv, nbp, regv) ==
  IF regv[b] # 0
  THEN <<[bpsv EXCEPT ![regv[b]].refs = @ + 1], nbp, regv, regv[b]>>
  ELSE LET id == nbp + 1 IN
       <<[bpsv EXCEPT ![id] = [BpRec(TRUE, b, txn.epoch) EXCEPT !.refs = 1]], id, [regv EXCEPT ![b] = id], id>>
CanGet(b) == reg[b] # 0 \/ nBp < MaxBp

Unref(i, bpsv, regv) ==
  LET r == bpsv[i].refs - 1 IN
  IF r = 0
  THEN <<[bpsv EXCEPT ![i].refs = 0, ![i].inputClosed = TRUE],
         IF regv[bpsv[i].broker] = i THEN [regv EXCEPT ![bpsv[i].broker] = 0] ELSE regv>>
  ELSE <<[bpsv EXCEPT ![i].refs = r], regv>>

PpStart(p) ==
  /\ ~pp[p].started /\ pp[p].todo = <<>> /\ ppQ[p] # <<>>
  /\ CanGet(view[p])
  /\ LET g == GetBp(view[p], bps, nBp, reg) IN
     /\ bps' = g[1] /\ nBp' = g[2] /\ reg' = g[3]
     /\ pp' = [pp EXCEPT ![p].started = TRUE, ![p].bp = g[4],
                         ![p].todo = <<<<"send", g[4], Msg(0, p, 0, "syn")>>>>]
  /\ inFlight' = inFlight + 1
  /\ UNCHANGED <<nextSub, inSlot, retryQ, ppQ, leader, view, log, outcome, bad, faults, moves, txn, rbs, pstate>>

PpRecv(p) ==
  /\ pp[p].started /\ pp[p].todo = <<>> /\ ppQ[p] # <<>>
  /\ LET m == Head(ppQ[p])
         s0 == pp[p]
         ab == s0.bp # 0 /\ RetryMax = 0 /\ bps[s0.bp].abandoned
         pre == IF ab THEN <<<<"unref", s0.bp>>>> ELSE <<>>
         s == IF ab THEN [s0 EXCEPT !.bp = 0] ELSE s0
     IN
     /\ ppQ' = [ppQ EXCEPT ![p] = Tail(@)]
     /\ IF m.retries > s.hwm /\ s.bp = 0
        THEN /\ pp' = [pp EXCEPT ![p] = [s EXCEPT !.todo = <<<<"nilderef">>>>]]
             /\ UNCHANGED inFlight
        ELSE IF m.retries > s.hwm
        THEN /\ pp' = [pp EXCEPT ![p] = [s EXCEPT !.hwm = m.retries, !.chaser[m.retries] = TRUE, !.bp = 0,
                                          !.todo = pre \o <<<<"send", s.bp, Msg(0, p, m.retries - 1, "fin")>>,
                                                             <<"unref", s.bp>>, <<"fwd", m>>>>]]
             /\ inFlight' = inFlight + 1
        ELSE IF s.hwm > 0 /\ m.retries < s.hwm
        THEN IF m.flag = "fin"
             THEN /\ pp' = [pp EXCEPT ![p] = [s EXCEPT !.chaser[m.retries] = FALSE, !.todo = pre]]
                  /\ inFlight' = inFlight - 1
             ELSE /\ pp' = [pp EXCEPT ![p] = [s EXCEPT !.buf[m.retries] = Append(@, m), !.todo = pre]]
                  /\ UNCHANGED inFlight
        ELSE IF s.hwm > 0 /\ m.flag = "fin"
        THEN /\ pp' = [pp EXCEPT ![p] = [s EXCEPT !.chaser[s.hwm] = FALSE, !.todo = pre \o <<<<"flush">>>>]]
             /\ UNCHANGED inFlight
        ELSE /\ pp' = [pp EXCEPT ![p] = [s EXCEPT !.todo = pre \o <<<<"fwd", m>>>>]]
             /\ UNCHANGED inFlight
  /\ UNCHANGED <<nextSub, inSlot, retryQ, bps, nBp, reg, leader, view, log, outcome, bad, faults, moves, txn, rbs, pstate>>

\* sequence assignment happens only on the forward path (not in flushRetryBuffers)
NeedsSeq(m) == Idem /\ m.retries = 0 /\ m.flag = "none"
Stamp(m, p) == IF NeedsSeq(m) THEN [m EXCEPT !.seq = txn.seq[p], !.ep = txn.epoch, !.hs = TRUE] ELSE m
TxnAfterStamp(m, p) == IF NeedsSeq(m) THEN [txn EXCEPT !.seq[p] = @ + 1] ELSE txn

PpStep(p) ==
  /\ pp[p].todo # <<>>
  /\ LET op == Head(pp[p].todo)
         rest == Tail(pp[p].todo)
     IN
     CASE op[1] = "send" ->
            /\ bps[op[2]].in = <<>>
            /\ bps' = [bps EXCEPT ![op[2]].in = <<op[3]>>]
            /\ pp' = [pp EXCEPT ![p].todo = rest]
            /\ UNCHANGED <<nBp, reg, view, inFlight, txn>>
       [] op[1] = "unref" ->
            /\ LET u == Unref(op[2], bps, reg) IN bps' = u[1] /\ reg' = u[2]
            /\ pp' = [pp EXCEPT ![p].todo = rest]
            /\ UNCHANGED <<nBp, view, inFlight, txn>>
       [] op[1] = "fwd" ->
            IF pp[p].bp = 0
            THEN /\ CanGet(leader[p])
                 /\ LET g == GetBp(leader[p], bps, nBp, reg) IN
                    /\ view' = leader
                    /\ bps' = g[1] /\ nBp' = g[2] /\ reg' = g[3]
                    /\ pp' = [pp EXCEPT ![p].bp = g[4],
                                        ![p].todo = <<<<"send", g[4], Msg(0, p, 0, "syn")>>,
                                                      <<"send", g[4], Stamp(op[2], p)>>>> \o rest]
                 /\ txn' = TxnAfterStamp(op[2], p)
                 /\ inFlight' = inFlight + 1
            ELSE /\ pp' = [pp EXCEPT ![p].todo = <<<<"send", pp[p].bp, Stamp(op[2], p)>>>> \o rest]
                 /\ txn' = TxnAfterStamp(op[2], p)
                 /\ UNCHANGED <<bps, nBp, reg, view, inFlight>>
       [] op[1] = "flush" ->
            LET h == pp[p].hwm - 1 IN
            IF pp[p].bp = 0
            THEN /\ CanGet(leader[p])
                 /\ LET g == GetBp(leader[p], bps, nBp, reg) IN
                    /\ view' = leader
                    /\ bps' = g[1] /\ nBp' = g[2] /\ reg' = g[3]
                    /\ pp' = [pp EXCEPT ![p].bp = g[4],
                                        ![p].todo = <<<<"send", g[4], Msg(0, p, 0, "syn")>>>> \o pp[p].todo]
                 /\ inFlight' = inFlight + 1
                 /\ UNCHANGED txn
            ELSE LET raw == pp[p].buf[h]
                     need(k) == FixFlushSeq /\ NeedsSeq(raw[k]) /\ ~raw[k].hs
                     cnt(k) == Cardinality({j \in 1..(k-1) : need(j)})
                     st(k) == IF need(k) THEN [raw[k] EXCEPT !.seq = txn.seq[p] + cnt(k), !.ep = txn.epoch, !.hs = TRUE] ELSE raw[k]
                     sends == [k \in 1..Len(raw) |-> <<"send", pp[p].bp, st(k)>>]
                     more == IF pp[p].chaser[h] \/ h = 0 THEN <<<<"done">>>> ELSE <<<<"flush">>>>
                 IN
                 /\ pp' = [pp EXCEPT ![p].hwm = h, ![p].buf[h] = <<>>, ![p].todo = sends \o more \o rest]
                 /\ txn' = [txn EXCEPT !.seq[p] = @ + cnt(Len(raw) + 1)]
                 /\ UNCHANGED <<bps, nBp, reg, view, inFlight>>
       [] op[1] = "done" ->
            /\ inFlight' = inFlight - 1
            /\ pp' = [pp EXCEPT ![p].todo = rest]
            /\ UNCHANGED <<bps, nBp, reg, view, txn>>
  /\ UNCHANGED <<nextSub, inSlot, retryQ, ppQ, leader, log, outcome, bad, faults, moves, rbs, pstate>>

-----------------------------------------------------------------------------
BufEmpty(b) == \A p \in Parts : b[p] = <<>>

BpRecv(i) ==
  /\ bps[i].used /\ bps[i].in # <<>>
  /\ LET m == bps[i].in[1]
         B == bps[i]
     IN
     IF m.flag = "syn"
     THEN /\ bps' = [bps EXCEPT ![i].in = <<>>, ![i].cur[m.part] = FALSE]
          /\ inFlight' = inFlight - 1
          /\ UNCHANGED <<retryQ, outcome, bad, txn>>
     ELSE IF B.closing \/ B.cur[m.part]
     THEN /\ IF m.retries >= RetryMax
             THEN LET r == ApplyOutcome(outcome, bad, <<m>>, "err") IN
                  /\ outcome' = r[1] /\ bad' = r[2]
                  /\ inFlight' = inFlight - 1
                  /\ txn' = TxnAfterErrors(txn, <<m>>)
                  /\ UNCHANGED retryQ
             ELSE /\ retryQ' = Append(retryQ, [m EXCEPT !.retries = @ + 1])
                  /\ UNCHANGED <<outcome, bad, inFlight, txn>>
          /\ bps' = [bps EXCEPT ![i].in = <<>>,
                                ![i].cur[m.part] = IF ~B.closing /\ m.flag = "fin" THEN FALSE ELSE @]
     ELSE IF Idem /\ B.bepoch # m.ep /\ ~BufEmpty(B.buffer)
     THEN \* epoch rollover: the current buffer must go out first (waitForSpace, forced)
          /\ ~B.out.busy
          /\ bps' = [bps EXCEPT ![i].out = [busy |-> TRUE, set |-> B.buffer,
                                             bid |-> [q \in Parts |-> [e |-> B.bepoch,
                                                        f |-> IF B.buffer[q] = <<>> THEN 0 ELSE B.buffer[q][1].seq]],
                                             res |-> "pending", kinds |-> [q \in Parts |-> "none"]],
                                ![i].buffer = EmptyBuf, ![i].bepoch = txn.epoch]
          /\ UNCHANGED <<retryQ, outcome, bad, inFlight, txn>>    \* message stays in the slot, handled next
     ELSE IF Idem /\ B.buffer[m.part] # <<>> /\ m.seq < B.buffer[m.part][1].seq
     THEN \* produceSet.add: "assertion failed: message out of sequence added to a batch"
          LET r == ApplyOutcome(outcome, bad, <<m>>, "err") IN
          /\ outcome' = r[1] /\ bad' = r[2] \cup {"add_assert"}
          /\ inFlight' = inFlight - 1
          /\ txn' = TxnAfterErrors(txn, <<m>>)
          /\ bps' = [bps EXCEPT ![i].in = <<>>]
          /\ UNCHANGED retryQ
     ELSE /\ bps' = [bps EXCEPT ![i].in = <<>>, ![i].buffer[m.part] = Append(@, m),
                                ![i].bepoch = IF Idem /\ BufEmpty(B.buffer) /\ B.bepoch # m.ep THEN txn.epoch ELSE @]
          /\ UNCHANGED <<retryQ, outcome, bad, inFlight, txn>>
  /\ UNCHANGED <<nextSub, inSlot, ppQ, pp, nBp, reg, leader, view, log, faults, moves, rbs, pstate>>

BpSend(i) ==
  /\ bps[i].used /\ ~BufEmpty(bps[i].buffer) /\ ~bps[i].out.busy
  /\ LET B == bps[i] IN
     bps' = [bps EXCEPT ![i].out = [busy |-> TRUE, set |-> B.buffer,
                                     bid |-> [q \in Parts |-> [e |-> B.bepoch,
                                                f |-> IF B.buffer[q] = <<>> THEN 0 ELSE B.buffer[q][1].seq]],
                                     res |-> "pending", kinds |-> [q \in Parts |-> "none"]],
                        ![i].buffer = EmptyBuf, ![i].bepoch = txn.epoch]
  /\ UNCHANGED <<nextSub, inSlot, retryQ, ppQ, pp, nBp, reg, leader, view, log, outcome, bad, inFlight, faults, moves, txn, rbs, pstate>>

-----------------------------------------------------------------------------
(* broker side.  Decision of the sequence check for one batch *)
SeqDecision(p, bid, n) ==
  LET ps == pstate[p] IN
  IF ~Idem THEN "accept"
  ELSE IF bid.e < ps.epoch THEN "fenced"
  ELSE IF bid.e > ps.epoch THEN (IF bid.f = 0 THEN "accept" ELSE "ooo")
  ELSE IF \E k \in 1..Len(ps.win) : ps.win[k].f = bid.f /\ ps.win[k].n = n THEN "dupwin"
  ELSE IF bid.f = ps.next THEN "accept"
  ELSE IF ps.win # <<>> /\ bid.f + n - 1 < ps.win[1].f THEN "dupold"   \* entirely older than the cached window
  ELSE "ooo"

Last5(w) == IF Len(w) <= 5 THEN w ELSE SubSeq(w, Len(w) - 4, Len(w))

Kinds == {"ok", "retry", "retryapp", "fatal"}
BrokerHandle(i) ==
  /\ bps[i].used /\ bps[i].out.busy /\ bps[i].out.res = "pending"
  /\ LET O == bps[i].out
         set == O.set
         mine(p) == set[p] # <<>> /\ leader[p] = bps[i].broker
         dec(p) == SeqDecision(p, O.bid[p], Len(set[p]))
     IN
     \/ \E ks \in [Parts -> Kinds] :
          LET \* final answer per partition
              ans(p) == IF set[p] = <<>> THEN "ok"
                        ELSE IF ~mine(p) THEN "retry"
                        ELSE IF dec(p) = "accept" THEN ks[p]
                        ELSE IF dec(p) = "dupwin" THEN "ok"
                        ELSE IF dec(p) = "dupold" THEN "dupseq"
                        ELSE "fatal"
              app(p) == mine(p) /\ dec(p) = "accept" /\ ks[p] \in {"ok", "retryapp"}
              nf == Cardinality({p \in Parts : mine(p) /\ dec(p) = "accept" /\ ks[p] # "ok"})
          IN
          /\ \A p \in Parts : (set[p] = <<>> \/ ~mine(p) \/ dec(p) # "accept") => ks[p] = "ok"
          /\ faults + nf <= MaxFaults
          /\ faults' = faults + nf
          /\ log' = [p \in Parts |-> IF app(p) THEN log[p] \o Ids(set[p]) ELSE log[p]]
          /\ pstate' = [p \in Parts |-> IF app(p) /\ Idem
                          THEN [epoch |-> O.bid[p].e, next |-> O.bid[p].f + Len(set[p]),
                                win |-> Last5(Append(IF O.bid[p].e > pstate[p].epoch THEN <<>> ELSE pstate[p].win,
                                                     [f |-> O.bid[p].f, n |-> Len(set[p])]))]
                          ELSE pstate[p]]
          /\ bps' = [bps EXCEPT ![i].out.res = "answered", ![i].out.kinds = [p \in Parts |-> ans(p)]]
          /\ hist' = Append(hist, [a |-> "handle", conn |-> "ok",
                                   kinds |-> [p \in Parts |-> IF set[p] = <<>> THEN "-" ELSE IF mine(p) /\ dec(p) = "accept" THEN ks[p] ELSE "auto"]])
     \/ \E appended \in BOOLEAN :
          LET app(p) == appended /\ mine(p) /\ dec(p) = "accept" IN
          /\ faults < MaxFaults
          /\ faults' = faults + 1
          /\ log' = [p \in Parts |-> IF app(p) THEN log[p] \o Ids(set[p]) ELSE log[p]]
          /\ pstate' = [p \in Parts |-> IF app(p) /\ Idem
                          THEN [epoch |-> O.bid[p].e, next |-> O.bid[p].f + Len(set[p]),
                                win |-> Last5(Append(IF O.bid[p].e > pstate[p].epoch THEN <<>> ELSE pstate[p].win,
                                                     [f |-> O.bid[p].f, n |-> Len(set[p])]))]
                          ELSE pstate[p]]
          /\ bps' = [bps EXCEPT ![i].out.res = "connerr"]
          /\ hist' = Append(hist, [a |-> "handle", conn |-> IF appended THEN "drop_after" ELSE "drop_before",
                                   kinds |-> [p \in Parts |-> "-"]])
  /\ UNCHANGED <<nextSub, inSlot, retryQ, ppQ, pp, nBp, reg, leader, view, outcome, bad, inFlight, moves, txn, rbs>>

Abandon(b, bpsv, regv) ==
  IF regv[b] # 0
  THEN <<[bpsv EXCEPT ![regv[b]].abandoned = (RetryMax = 0)], [regv EXCEPT ![b] = 0]>>
  ELSE <<bpsv, regv>>

BpResp(i) ==
  /\ bps[i].used /\ bps[i].out.busy /\ bps[i].out.res \in {"answered", "connerr"}
  /\ LET B == bps[i]
         set == B.out.set
     IN
     IF B.out.res = "connerr"
     THEN \E ord \in PartOrders :
          LET a == Abandon(B.broker, bps, reg)
              all == Flatten(set, ord) \o Flatten(B.buffer, ord)
              r == ApplyOutcome(outcome, bad, Exhausted(all), "err")
          IN
          /\ reg' = a[2]
          /\ bps' = [a[1] EXCEPT ![i].closing = TRUE, ![i].buffer = EmptyBuf, ![i].bepoch = txn.epoch, ![i].out = NoOut]
          /\ retryQ' = retryQ \o Bump(Requeue(all))
          /\ outcome' = r[1] /\ bad' = r[2]
          /\ inFlight' = inFlight - Len(Exhausted(all))
          /\ txn' = TxnAfterErrors(txn, Exhausted(all))
          /\ UNCHANGED <<rbs, view>>
     ELSE \E ord \in PartOrders :
          LET ks == B.out.kinds
              okMs == Flatten([p \in Parts |-> IF ks[p] \in {"ok", "dupseq"} THEN set[p] ELSE <<>>], ord)
              retryP == {p \in Parts : set[p] # <<>> /\ ks[p] \in {"retry", "retryapp"}}
              fatalP == {p \in Parts : set[p] # <<>> /\ ks[p] = "fatal"}
              errNow == Flatten([p \in Parts |-> IF p \in fatalP \/ (p \in retryP /\ RetryMax = 0) THEN set[p] ELSE <<>>], ord)
              doAbandon == RetryMax = 0 /\ (retryP # {} \/ fatalP # {})
              a == IF doAbandon THEN Abandon(B.broker, bps, reg) ELSE <<bps, reg>>
              \* non-idempotent: sent set and buffer go through the retry queue; idempotent: only the buffer
              rs == IF RetryMax = 0 THEN <<>>
                    ELSE Flatten([p \in Parts |-> IF p \in retryP
                                                  THEN (IF Idem THEN <<>> ELSE set[p]) \o B.buffer[p] ELSE <<>>], ord)
              newRbs == IF Idem /\ RetryMax > 0
                        THEN {[part |-> p, ms |-> set[p], bid |-> B.out.bid[p], stage |-> "start", target |-> 0] : p \in retryP}
                        ELSE {}
              r1 == ApplyOutcome(outcome, bad, okMs, "ok")
              r2 == ApplyOutcome(r1[1], r1[2], errNow \o Exhausted(rs), "err")
          IN
          /\ reg' = a[2]
          /\ bps' = [a[1] EXCEPT ![i].out = NoOut,
                                 ![i].cur = [p \in Parts |-> IF RetryMax > 0 /\ p \in retryP THEN TRUE ELSE B.cur[p]],
                                 ![i].buffer = [p \in Parts |-> IF RetryMax > 0 /\ p \in retryP THEN <<>> ELSE B.buffer[p]]]
          /\ retryQ' = retryQ \o Bump(Requeue(rs))
          /\ outcome' = r2[1] /\ bad' = r2[2]
          /\ inFlight' = inFlight - Len(okMs) - Len(errNow) - Len(Exhausted(rs))
          /\ txn' = TxnAfterErrors(txn, errNow \o Exhausted(rs))
          /\ rbs' = rbs \cup newRbs
          /\ view' = IF Idem /\ retryP # {} /\ RetryMax > 0 THEN leader ELSE view
  /\ UNCHANGED <<nextSub, inSlot, ppQ, pp, nBp, leader, log, faults, moves, pstate>>

\* retryBatch goroutine
RbStart(r) ==
  /\ r \in rbs /\ r.stage = "start"
  /\ IF Head(r.ms).retries >= RetryMax
     THEN \* quirk: only the first message is failed, then return
          LET failed == IF FixRbAll THEN r.ms ELSE <<Head(r.ms)>>
              res == ApplyOutcome(outcome, bad, failed, "err") IN
          /\ outcome' = res[1] /\ bad' = res[2]
          /\ inFlight' = inFlight - Len(failed)
          /\ txn' = TxnAfterErrors(txn, failed)
          /\ rbs' = rbs \ {r}
          /\ UNCHANGED <<bps, nBp, reg>>
     ELSE /\ CanGet(view[r.part])
          /\ LET g == GetBp(view[r.part], bps, nBp, reg) IN
             /\ bps' = g[1] /\ nBp' = g[2] /\ reg' = g[3]
             /\ rbs' = (rbs \ {r}) \cup {[r EXCEPT !.ms = Bump(r.ms), !.stage = "send", !.target = g[4]]}
          /\ UNCHANGED <<outcome, bad, inFlight, txn>>
  /\ UNCHANGED <<nextSub, inSlot, retryQ, ppQ, pp, leader, view, log, faults, moves, pstate>>

RbSend(r) ==
  /\ r \in rbs /\ r.stage = "send"
  /\ ~bps[r.target].out.busy
  /\ bps' = [bps EXCEPT ![r.target].out =
                [busy |-> TRUE, set |-> [q \in Parts |-> IF q = r.part THEN r.ms ELSE <<>>],
                 bid |-> [q \in Parts |-> IF q = r.part THEN r.bid ELSE [e |-> 0, f |-> 0]],
                 res |-> "pending", kinds |-> [q \in Parts |-> "none"]]]
  /\ rbs' = rbs \ {r}
  /\ UNCHANGED <<nextSub, inSlot, retryQ, ppQ, pp, nBp, reg, leader, view, log, outcome, bad, inFlight, faults, moves, txn, pstate>>

LeaderMove ==
  /\ moves < MaxMoves
  /\ \E p \in Parts, b \in Brokers : b # leader[p] /\ leader' = [leader EXCEPT ![p] = b]
                                   /\ hist' = Append(hist, [a |-> "move", part |-> p, to |-> b])
  /\ moves' = moves + 1
  /\ UNCHANGED <<nextSub, inSlot, retryQ, ppQ, pp, bps, nBp, reg, view, log, outcome, bad, inFlight, faults, txn, rbs, pstate>>

\* ---- full action log for conducted replay. Record is FALSE here (steps stays empty, nothing changes for the
\* model-checking and environment-behaviour instances); cfg/MCProducer.conduct.*.cfg substitute Record <- RecordOn.
Record == FALSE
Log(r) == steps' = IF Record THEN Append(steps, r) ELSE steps
MsgRec(a, m) == [a |-> a, id |-> m.id, part |-> m.part, retries |-> m.retries, flag |-> m.flag]
LastHist == hist'[Len(hist')]

LSubmit == Submit /\ Log([a |-> "submit", id |-> nextSub, part |-> PartOf[nextSub]])
LRhDeq == RhDeq /\ Log(MsgRec("rhdeq", Head(retryQ)))
LDispRecv == DispRecv /\ Log(MsgRec("disp", inSlot[1]))
LPpStart(p) == PpStart(p) /\ Log([a |-> "ppstart", part |-> p])
LPpRecv(p) == PpRecv(p) /\ Log([MsgRec("pprecv", Head(ppQ[p])) EXCEPT !.part = p] @@ [hwm |-> pp[p].hwm])
LPpStep(p) == PpStep(p) /\ Log([a |-> "ppstep", part |-> p, op |-> Head(pp[p].todo)[1], level |-> pp[p].hwm - 1,
                                  nobp |-> pp[p].bp = 0,
                                  to |-> IF Head(pp[p].todo)[1] = "send" THEN Head(pp[p].todo)[2] ELSE 0])
\* roll: the epoch-rollover branch of BpRecv (the buffer is forced out, the message stays in the slot and is handled by
\* the next BpRecv of this worker: one bp.recv hook in the code)
BpRecvRolls(i) == LET m == bps[i].in[1] B == bps[i] IN
                  /\ m.flag # "syn" /\ ~(B.closing \/ B.cur[m.part])
                  /\ Idem /\ B.bepoch # m.ep /\ ~BufEmpty(B.buffer)
\* (with an EMPTY buffer the model only adopts the new epoch; the code hands the empty buffer to the bridge all the same -
\* waitForSpace with forceRollover - so an empty produce request makes a round trip to the broker: harmless, not modelled,
\* and let through by the conductor without a step of its own)
LBpRecv(i) == BpRecv(i) /\ Log(MsgRec("bprecv", bps[i].in[1]) @@ [bp |-> i, broker |-> bps[i].broker, roll |-> BpRecvRolls(i),
                                    ids |-> [p \in Parts |-> Ids(bps[i].buffer[p])]])
LBpSend(i) == BpSend(i) /\ Log([a |-> "bpsend", bp |-> i, broker |-> bps[i].broker, ids |-> [p \in Parts |-> Ids(bps[i].buffer[p])]])
LBrokerHandle(i) == BrokerHandle(i) /\ Log([a |-> "handle", bp |-> i, broker |-> bps[i].broker, conn |-> LastHist.conn,
                                             kinds |-> LastHist.kinds])
LBpResp(i) == BpResp(i) /\ Log([a |-> "bpresp", bp |-> i, broker |-> bps[i].broker, err |-> bps[i].out.res = "connerr"])
LRbStart(r) == RbStart(r) /\ Log([a |-> "rbstart", part |-> r.part, id |-> Head(r.ms).id, exhausted |-> Head(r.ms).retries >= RetryMax])
LRbSend(r) == RbSend(r) /\ Log([a |-> "rbsend", part |-> r.part, bp |-> r.target, broker |-> bps[r.target].broker,
                                 ids |-> [p \in Parts |-> IF p = r.part THEN Ids(r.ms) ELSE <<>>]])
LLeaderMove == LeaderMove /\ Log([a |-> "move", part |-> LastHist.part, to |-> LastHist.to])

Internal ==
  \/ LRhDeq \/ LDispRecv
  \/ \E p \in Parts : LPpStart(p) \/ LPpRecv(p) \/ LPpStep(p)
  \/ \E i \in BpIds : LBpRecv(i) \/ LBpSend(i) \/ LBpResp(i)
  \/ \E r \in rbs : LRbStart(r) \/ LRbSend(r)

Next ==
  \/ LSubmit
  \/ \E i \in BpIds : LBrokerHandle(i)
  \/ LLeaderMove
  \/ (Internal /\ UNCHANGED hist)

Spec == Init /\ [][Next]_vars
\* liveness: with fair scheduling of every goroutine and of the broker, and finitely many faults,
\* the pipeline drains: this is what makes Close() return (shutdown waits for inFlight = 0)
LiveSpec == Spec /\ WF_vars(Next)

-----------------------------------------------------------------------------
RECURSIVE FirstCopies(_, _)
FirstCopies(s, seen) ==
  IF s = <<>> THEN <<>>
  ELSE IF Head(s) \in seen THEN FirstCopies(Tail(s), seen)
       ELSE <<Head(s)>> \o FirstCopies(Tail(s), seen \cup {Head(s)})
Increasing(s) == \A a, b \in 1..Len(s) : a < b => s[a] < s[b]

OrderOK == \A p \in Parts : Increasing(FirstCopies(log[p], {}))
NoDupOutcome == "dup_outcome" \notin bad
NoMarkerOutcome == "marker" \notin bad
NoAddAssert == "add_assert" \notin bad
NoForeign == \A p \in Parts : \A k \in 1..Len(log[p]) : log[p][k] # 0
NoNilDeref == \A p \in Parts : pp[p].todo = <<>> \/ Head(pp[p].todo)[1] # "nilderef"
NoDoubleAppend == Idem => \A p \in Parts : \A a, b \in 1..Len(log[p]) : a # b => log[p][a] # log[p][b]
SuccessInLog == \A m \in Msgs : outcome[m] = "ok" => \E k \in 1..Len(log[PartOf[m]]) : log[PartOf[m]][k] = m

Quiescent ==
  /\ nextSub > NMsgs /\ inSlot = <<>> /\ retryQ = <<>> /\ rbs = {}
  /\ \A p \in Parts : ppQ[p] = <<>> /\ pp[p].todo = <<>>
  /\ \A i \in BpIds : bps[i].used => (bps[i].in = <<>> /\ BufEmpty(bps[i].buffer) /\ ~bps[i].out.busy)
QuiescentDone == Quiescent => ((\A m \in Msgs : outcome[m] # "none") /\ inFlight = 0)

Drains == <>[](Quiescent /\ inFlight = 0 /\ \A m \in Msgs : outcome[m] # "none")

\* role 2: print the environment behaviour when the model has become quiescent
HistJson == [k \in 1..Len(hist) |->
   IF hist[k].a = "handle"
   THEN [a |-> "handle", conn |-> hist[k].conn, id |-> 0, part |-> "-", to |-> "-",
         kinds |-> LET RECURSIVE F(_) F(S) == IF S = {} THEN <<>> ELSE LET p == CHOOSE q \in S : TRUE IN <<<<p, hist[k].kinds[p]>>>> \o F(S \ {p}) IN F(Parts)]
   ELSE IF hist[k].a = "submit"
   THEN [a |-> "submit", conn |-> "-", id |-> hist[k].id, part |-> hist[k].part, to |-> "-", kinds |-> <<>>]
   ELSE [a |-> "move", conn |-> "-", id |-> 0, part |-> hist[k].part, to |-> hist[k].to, kinds |-> <<>>]]
Emit == Quiescent => PrintT(<<"CASE", ToJson(HistJson)>>)
=============================================================================
