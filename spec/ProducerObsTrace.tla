-------------------------- MODULE ProducerObsTrace --------------------------
(* API-level observer for the producer properties C01 C02 C04 C05 C16 C18 (and the producer
   part of C12): a TOTAL trace specification. Every recorded event of an execution of the REAL
   AsyncProducer against the simulated cluster is consumed; an event whose named clause is
   false does not block, it adds <<trace, index, clause>> to viol. One TLC pass therefore
   reports every violated clause of every trace with the exact event.

   Message identities are integers assigned in submission order by the single submitting
   goroutine of a scenario (0 = "not a message the application submitted": internal syn / fin
   / shutdown markers carry no identity).                                                   *)
EXTENDS Naturals, Integers, Sequences, FiniteSets, TLC, Json

Trace == ndJsonDeserialize("trace.ndjson")

VARIABLES l,          \* position in Trace
          cfg,        \* the reset event of the current trace (configuration of the scenario)
          submitted,  \* ids submitted so far
          subInfo,    \* id -> [part, size, late]   late = submitted after Close was called
          outcome,    \* id -> "none" | "ok" | "err"
          okAt,       \* id -> <<part, offset>> of its success
          chosen,     \* id -> partition the (wrapped) partitioner chose, when attributable
          log,        \* part -> sequence of ids appended by the brokers
          wire,       \* part -> sequence of distinct batches seen on the wire [epoch, seq, ids]
          bstate,     \* part -> [has, epoch, next, win] : Kafka's per-partition producer state as the spec computes it
          icount,     \* <<chain, id>> -> number of interceptor invocations
          phase,      \* [closeCalled, succClosed, errClosed, closeRet, hung]
          viol, stats

vars == <<l, cfg, submitted, subInfo, outcome, okAt, chosen, log, wire, bstate, icount, phase, viol, stats>>

E == Trace[l]
V(c) == {<<E.t, E.i, c>>}
When(cond, c) == IF cond THEN V(c) ELSE {}
Get(f, k, d) == IF k \in DOMAIN f THEN f[k] ELSE d
Put(f, k, v) == [x \in DOMAIN f \cup {k} |-> IF x = k THEN v ELSE f[x]]
ToSet(s) == {s[k] : k \in DOMAIN s}

NoCfg == [sync |-> FALSE, idem |-> FALSE, retryMax |-> 0, flushMaxMsgs |-> 0, maxMsgBytes |-> 0, acks |-> "local",
          partitioner |-> "manual", interceptors |-> 0, maxReqSize |-> 0, family |-> "-", name |-> "-"]
Phase0 == [closeCalled |-> FALSE, succClosed |-> FALSE, errClosed |-> FALSE, closeRet |-> FALSE, hung |-> FALSE]
Stats0 == [traces |-> 0, events |-> 0, successes |-> 0, errors |-> 0, appends |-> 0, requests |-> 0,
           retried |-> 0, unsteered |-> 0, skipped |-> 0, gates |-> 0, simerr |-> 0]

Init == /\ l = 1 /\ cfg = NoCfg /\ submitted = {} /\ subInfo = <<>> /\ outcome = <<>> /\ okAt = <<>> /\ chosen = <<>>
        /\ log = <<>> /\ wire = <<>> /\ bstate = <<>> /\ icount = <<>> /\ phase = Phase0 /\ viol = {} /\ stats = Stats0

RECURSIVE FirstCopies(_, _)
FirstCopies(s, seen) ==
  IF s = <<>> THEN <<>>
  ELSE IF Head(s) \in seen THEN FirstCopies(Tail(s), seen)
       ELSE <<Head(s)>> \o FirstCopies(Tail(s), seen \cup {Head(s)})
Increasing(s) == \A a \in 1..(Len(s) - 1) : s[a] < s[a + 1]
CountIn(s, x) == Cardinality({k \in DOMAIN s : s[k] = x})
NoDup(s) == Cardinality(ToSet(s)) = Len(s)

Bump(field) == [stats EXCEPT ![field] = @ + 1, !.events = @ + 1]
Tick == [stats EXCEPT !.events = @ + 1]

-----------------------------------------------------------------------------
TReset ==
  /\ E.ev = "reset"
  /\ cfg' = E
  /\ submitted' = {} /\ subInfo' = <<>> /\ outcome' = <<>> /\ okAt' = <<>> /\ chosen' = <<>> /\ log' = <<>> /\ wire' = <<>> /\ bstate' = <<>>
  /\ icount' = <<>> /\ phase' = Phase0
  /\ stats' = Bump("traces")
  /\ UNCHANGED viol

TSubmit ==
  /\ E.ev = "submit"
  /\ submitted' = submitted \cup {E.id}
  /\ subInfo' = Put(subInfo, E.id, [part |-> E.part, size |-> E.size, late |-> phase.closeCalled])
  /\ outcome' = Put(outcome, E.id, "none")
  /\ stats' = Tick
  /\ UNCHANGED <<cfg, okAt, chosen, log, wire, bstate, icount, phase, viol>>

\* ---- terminal events (C01, C02, C04, C05)
TSuccess ==
  /\ E.ev = "success"
  /\ LET id == E.id
         known == id \in submitted
         lg == Get(log, E.part, <<>>)
         offOK == E.off >= 0 /\ E.off + 1 <= Len(lg) /\ lg[E.off + 1] = id
         samePartOk == {b \in DOMAIN okAt : okAt[b][1] = E.part}
     IN
     /\ outcome' = IF known THEN Put(outcome, id, "ok") ELSE outcome
     /\ okAt' = IF known THEN Put(okAt, id, <<E.part, E.off>>) ELSE okAt
     /\ viol' = viol
          \cup When(~known, "outcome_for_unknown")
          \cup When(known /\ outcome[id] # "none", "outcome_twice")
          \cup When(known /\ cfg.acks # "none" /\ ~offOK, "success_offset_holds_message")
          \cup When(known /\ cfg.partitioner = "manual" /\ subInfo[id].part # E.part, "success_partition_is_chosen")
          \cup When(known /\ cfg.partitioner # "manual" /\ id \in DOMAIN chosen /\ chosen[id] >= 0 /\ chosen[id] # E.part,
                    "success_partition_is_chosen")
          \cup When(known /\ cfg.acks # "none" /\ ~cfg.sync /\
                    \E b \in samePartOk : (b < id /\ okAt[b][2] >= E.off) \/ (b > id /\ okAt[b][2] <= E.off),
                    "success_offset_order")
          \cup When(known /\ cfg.idem /\ CountIn(lg, id) # 1, "success_in_log_exactly_once")
  /\ stats' = Bump("successes")
  /\ UNCHANGED <<cfg, submitted, subInfo, chosen, log, wire, bstate, icount, phase>>

TError ==
  /\ E.ev = "error"
  /\ LET id == E.id
         known == id \in submitted
     IN
     /\ outcome' = IF known THEN Put(outcome, id, "err") ELSE outcome
     /\ viol' = viol
          \cup When(~known, "outcome_for_unknown")
          \cup When(known /\ outcome[id] # "none", "outcome_twice")
          \* C16: in the size / count / timer families nothing is scripted to fail for good and the brokers accept everything:
          \* a message within MaxMessageBytes must be SENT (batched within the limits), not failed by the producer itself
          \cup When(known /\ cfg.family \in {"limits", "timer", "lone"} /\ ~subInfo[id].late
                    /\ subInfo[id].size + 120 <= cfg.maxMsgBytes, "within_limits_is_sent")   \* (120: room for the producer's own overhead estimate)
  /\ stats' = Bump("errors")
  /\ UNCHANGED <<cfg, submitted, subInfo, okAt, chosen, log, wire, bstate, icount, phase>>

\* ---- broker side (C02, C04, C05, C16)
\* Kafka's sequence check (environment part of the specification; the simulated broker's own
\* decisions are validated against it, clause sim_broker_rules => the run is inconclusive)
NoB == [has |-> FALSE, epoch |-> 0, next |-> 0, win |-> <<>>]
Decision(b, epoch, seq, n) ==
  IF ~b.has THEN (IF seq = 0 THEN "accept" ELSE "ooo")
  ELSE IF epoch < b.epoch THEN "fenced"
  ELSE IF epoch > b.epoch THEN (IF seq = 0 THEN "accept" ELSE "ooo")
  ELSE IF \E k \in DOMAIN b.win : b.win[k][1] = seq /\ b.win[k][2] = n THEN "dupwin"
  ELSE IF seq = b.next THEN "accept"
  ELSE IF b.win # <<>> /\ seq + n - 1 < b.win[1][1] THEN "dupold"
  ELSE "ooo"
Last5(w) == IF Len(w) <= 5 THEN w ELSE SubSeq(w, Len(w) - 4, Len(w))

TAppend ==
  /\ E.ev = "append"
  /\ LET old == Get(log, E.part, <<>>)
         new == old \o E.ids
         b == Get(bstate, E.part, NoB)
         n == Len(E.ids)
     IN
     /\ log' = Put(log, E.part, new)
     /\ bstate' = IF E.pid < 0 THEN bstate
                   ELSE Put(bstate, E.part, [has |-> TRUE, epoch |-> E.epoch, next |-> E.seq + n,
                                            win |-> Last5(Append(IF ~b.has \/ E.epoch > b.epoch THEN <<>> ELSE b.win, <<E.seq, n, E.base>>))])
     /\ viol' = viol
          \cup When(E.base # Len(old), "sim_inconsistent")
          \cup When(E.pid >= 0 /\ Decision(b, E.epoch, E.seq, n) # "accept", "sim_broker_rules")
          \cup When(\E k \in DOMAIN E.ids : E.ids[k] \notin submitted, "nothing_foreign_appended")
          \cup When(E.bad # <<>>, "wire_content_equals_submitted")
          \cup When(~cfg.sync /\ ~Increasing(FirstCopies(new, {})), "log_order")
          \cup When(cfg.idem /\ ~NoDup(new), "no_duplicate_append")
  /\ stats' = Bump("appends")
  /\ UNCHANGED <<cfg, submitted, subInfo, outcome, okAt, chosen, wire, icount, phase>>

\* one batch of a produce request against the batches seen before for its partition
BatchClauses(b) ==
  LET prevs == Get(wire, b.part, <<>>)
      mine == [epoch |-> b.epoch, seq |-> b.seq, ids |-> b.ids]
      seen == \E k \in DOMAIN prevs : prevs[k] = mine
      overlap == {k \in DOMAIN prevs : ToSet(prevs[k].ids) \cap ToSet(b.ids) # {}}
      sameEpoch == {k \in DOMAIN prevs : prevs[k].epoch = b.epoch}
      nextSeq == IF sameEpoch = {} THEN 0
                 ELSE LET top == CHOOSE k \in sameEpoch : \A j \in sameEpoch : prevs[j].seq <= prevs[k].seq
                      IN prevs[top].seq + Len(prevs[top].ids)
  IN
  When(cfg.idem /\ b.pid >= 0 /\ ~seen /\ overlap # {}, "resend_identical")
  \cup When(cfg.idem /\ b.pid >= 0 /\ ~seen /\ overlap = {} /\ b.seq # nextSeq, "sequence_contiguous")
  \cup When(Len(b.ids) > 1 /\ b.kvbytes > cfg.maxMsgBytes, "max_message_bytes")
  \cup When(\E k \in DOMAIN b.ids : b.ids[k] \in submitted /\ subInfo[b.ids[k]].size > cfg.maxMsgBytes, "oversize_rejected_not_sent")
  \* a batch of one message whose key+value bytes ON THE WIRE exceed the limit (e.g. grown by an interceptor)
  \cup When(Len(b.ids) = 1 /\ b.kvbytes > cfg.maxMsgBytes, "oversize_rejected_not_sent")

RECURSIVE AddBatches(_, _)
AddBatches(w, bs) ==
  IF bs = <<>> THEN w
  ELSE LET b == Head(bs)
           prevs == Get(w, b.part, <<>>)
           mine == [epoch |-> b.epoch, seq |-> b.seq, ids |-> b.ids]
       IN AddBatches(IF \E k \in DOMAIN prevs : prevs[k] = mine THEN w ELSE Put(w, b.part, Append(prevs, mine)), Tail(bs))

TRecv ==
  /\ E.ev = "recv"
  /\ viol' = viol
       \cup UNION {BatchClauses(E.batches[k]) : k \in DOMAIN E.batches}
       \cup When(cfg.flushMaxMsgs > 0 /\ E.nmsgs > cfg.flushMaxMsgs, "max_messages")
       \cup When(cfg.maxReqSize > 0 /\ E.wire > cfg.maxReqSize, "max_request_size")
  /\ wire' = AddBatches(wire, E.batches)
  /\ stats' = Bump("requests")
  /\ UNCHANGED <<cfg, submitted, subInfo, outcome, okAt, chosen, log, bstate, icount, phase>>

\* ---- interceptors (C18)
TIntercept ==
  /\ E.ev = "intercept"
  /\ LET k == <<E.chain, E.id>>
         n == Get(icount, k, 0)
     IN
     /\ icount' = Put(icount, k, n + 1)
     /\ viol' = viol
          \cup When(E.id \notin submitted, "intercept_unknown_message")
          \cup When(n >= 1, "intercept_once")
          \cup When(E.chain > 1 /\ Get(icount, <<E.chain - 1, E.id>>, 0) = 0, "intercept_chain_order")
  /\ stats' = Tick
  /\ UNCHANGED <<cfg, submitted, subInfo, outcome, okAt, chosen, log, wire, bstate, phase>>

\* ---- shutdown (C01, C12)
TPhase ==
  /\ E.ev \in {"close_call", "succ_closed", "err_closed", "close_ret", "hang", "noreq"}
  /\ phase' = CASE E.ev = "close_call" -> [phase EXCEPT !.closeCalled = TRUE]
                [] E.ev = "succ_closed" -> [phase EXCEPT !.succClosed = TRUE]
                [] E.ev = "err_closed" -> [phase EXCEPT !.errClosed = TRUE]
                [] E.ev = "close_ret" -> [phase EXCEPT !.closeRet = TRUE]
                [] OTHER -> [phase EXCEPT !.hung = TRUE]
  /\ viol' = viol
       \cup When(E.ev = "hang" /\ E.what = "close", "close_returns")
       \cup When(E.ev = "hang" /\ E.what = "submit", "input_accepts")
       \cup When(E.ev = "noreq", "flush_without_more_input")
  /\ stats' = Tick
  /\ UNCHANGED <<cfg, submitted, subInfo, outcome, okAt, chosen, log, wire, bstate, icount>>

\* end of a scenario: the producer has been closed (or Close hung)
TFin ==
  /\ E.ev = "fin"
  /\ viol' = viol
       \cup When(\E m \in submitted : outcome[m] = "none", "outcome_missing_at_close")
       \cup When(~phase.hung /\ ~(phase.succClosed /\ phase.errClosed), "channels_closed")
       \cup When(cfg.interceptors > 0 /\
                 \E m \in submitted : ~subInfo[m].late /\ \E c \in 1..cfg.interceptors : Get(icount, <<c, m>>, 0) = 0,
                 "intercept_missing")
  /\ stats' = Tick
  /\ UNCHANGED <<cfg, submitted, subInfo, outcome, okAt, chosen, log, wire, bstate, icount, phase>>

TChose ==
  /\ E.ev = "chose"
  /\ chosen' = Put(chosen, E.id, E.part)
  /\ stats' = Tick
  /\ UNCHANGED <<cfg, submitted, subInfo, outcome, okAt, log, wire, bstate, icount, phase, viol>>

TDedup ==
  /\ E.ev = "dedup"
  /\ viol' = viol \cup When(Decision(Get(bstate, E.part, NoB), E.epoch, E.seq, E.n) # E.decision, "sim_broker_rules")
  /\ stats' = Tick
  /\ UNCHANGED <<cfg, submitted, subInfo, outcome, okAt, chosen, log, wire, bstate, icount, phase>>

TOther ==
  /\ E.ev \in {"meta", "move", "reply", "drop", "gate", "sync_mismatch", "gate_timeout", "unsteered", "skip", "sim_error", "conduct"}
  /\ stats' = CASE E.ev = "unsteered" -> Bump("unsteered")
                [] E.ev = "skip" -> Bump("skipped")
                [] E.ev = "gate" -> Bump("gates")
                [] E.ev = "sim_error" -> Bump("simerr")
                [] E.ev = "reply" /\ (\E k \in DOMAIN E.kinds : E.kinds[k][2] \notin {"ok", "dupwin"}) -> Bump("retried")
                [] OTHER -> Tick
  /\ viol' = viol \cup When(E.ev = "sync_mismatch", "sync_return_matches")
  /\ UNCHANGED <<cfg, submitted, subInfo, outcome, okAt, chosen, log, wire, bstate, icount, phase>>

TPanic ==
  /\ E.ev \in {"panic", "bad_request"}
  /\ viol' = viol \cup (IF E.ev = "panic" THEN V("no_panic") ELSE V("wire_request_decodes"))
  /\ stats' = Tick
  /\ UNCHANGED <<cfg, submitted, subInfo, outcome, okAt, chosen, log, wire, bstate, icount, phase>>

TEnd ==
  /\ E.ev = "end"
  /\ PrintT(<<"VIOL", ToJson(viol)>>)
  /\ PrintT(<<"STATS", ToJson(stats)>>)
  /\ UNCHANGED <<cfg, submitted, subInfo, outcome, okAt, chosen, log, wire, bstate, icount, phase, viol, stats>>

Next == /\ l <= Len(Trace)
        /\ l' = l + 1
        /\ (TReset \/ TSubmit \/ TChose \/ TSuccess \/ TError \/ TAppend \/ TRecv \/ TIntercept \/ TPhase \/ TFin \/ TDedup \/ TOther \/ TPanic \/ TEnd)
Spec == Init /\ [][Next]_vars
Accepted == TLCGet("stats").diameter - 1 = Len(Trace)
=============================================================================
