---------------------------- MODULE MetadataRefreshers ----------------------------
(* C15 - CONCURRENT refreshers: NRef goroutines call RefreshMetadata at once on a running
   client (client.go tryRefreshMetadata / any / deregisterBroker / resurrectDeadBrokers /
   updateBroker), each of them walking the shared candidate lists in its own small steps:

     Pick(r)       any(): the head of seedBrokers, else SOME registered broker, else nil;
                   the request is then in flight on that candidate (cur[r])
     Outcome(r)    the candidate answers  -> updateMetadata: the broker set becomes the
                                             response's broker set (absent ones re-added)
                   the candidate fails    -> broker.Close(); deregisterBroker(cur[r]) AS IT IS:
                                             a seed is moved to deadSeeds only if it is (still)
                                             seedBrokers[0] - the identity check -, a seed that
                                             is not the head is left alone (delete of id -1),
                                             a registered broker is deleted by id
     (Broker.Open's window, the connection state and Close are modelled too: see PickOn)
     Resurrect(r)  any() returned nil: seedBrokers = seedBrokers ++ deadSeeds; one retry if
                   the caller has attempts left, else ErrOutOfBrokers

   The cluster does not change during a round (world = Metadata!W0: brokers 1@b1a, 2@b2a, no
   retriable topic error), so the only shared state that matters is seeds / dead / brokers.
   Clause refresh_succeeds_if_any_answers PER CALLER: a caller fails only if none of the
   candidates it could reach answers. Every interleaving is explored; the behaviours handed to
   the harness name the head candidate ("hold") whose failure the connection wrapper releases
   only when all NRef callers have a request in flight on it - the interleaving in which
   several callers deregister the same failed head.                                        *)
EXTENDS Integers, Sequences, FiniteSets, TLC, Json

CONSTANTS NRef,        \* concurrent callers of RefreshMetadata
          RetryMax,    \* Metadata.Retry.Max (0 or 1)
          MaxSteps,    \* concurrent rounds after client creation
          Kinds,       \* how a failing candidate misbehaves (see Metadata!KSeq); same treatment by the code
          EmitCases

Refs == 1..NRef
Seeds == {"s1", "s2"}
WB == {"b1a", "b2a"}                         \* broker endpoints of the (fixed) cluster
EPSeq == <<"s1", "s2", "b1a", "b1b", "b2a", "b3a">>
Holdable == {"close", "garbage", "corrid", "trailing"}   \* failures that arrive as an answer on the connection
Range(s) == {s[k] : k \in DOMAIN s}

VARIABLES seeds, dead, brokers, pc, cur, att, res, anyUp, beh, req, created, hist,
          win,      \* candidate -> the caller that is inside Broker.Open's window on it (0: nobody)
          isopen,   \* candidates whose Broker has an established connection
          raced     \* ghost: caller -> it got ErrNotConnected from a candidate that answers (this round)
vars == <<seeds, dead, brokers, pc, cur, att, res, anyUp, beh, req, created, hist, win, isopen, raced>>
down == DOMAIN beh
EPs == Seeds \cup WB
NoWindow == \A e \in EPs : win[e] = 0      \* nobody is inside any() (holding client.lock.RLock)

\* the fixed cluster, in the JSON shape of Metadata!WorldJson(W0)
W0Json == [brokers |-> << <<1, "b1a">>, <<2, "b2a">> >>, ctrl |-> 1,
           topics |-> << <<"t1", "ok", << <<1, "none", 2, <<2, 3>>, <<2>>, <<>> >>, <<0, "none", 1, <<1, 2>>, <<1>>, <<>> >> >> >>,
                         <<"t2", "absent", <<>> >> >>]
StepJson(h) ==   \* h = <<name, request, beh, head seed at the start of the round>>
  LET ds == SelectSeq(EPSeq, LAMBDA e : e \in DOMAIN h[3]) IN
  [mut |-> h[1], world |-> W0Json, req |-> h[2], down |-> ds, modes |-> [i \in 1..Len(ds) |-> h[3][ds[i]]],
   head |-> h[4],
   hold |-> IF h[4] \in DOMAIN h[3] /\ h[3][h[4]] \in Holdable THEN h[4] ELSE ""]

Behs(C) == UNION {{[e \in d |-> k] : k \in Kinds} : d \in SUBSET C}
NoBeh == [e \in {} |-> ""]

Init ==
  /\ seeds = <<"s1", "s2">> /\ dead = <<>> /\ brokers = {}
  /\ pc = [r \in Refs |-> IF r = 1 THEN "pick" ELSE "idle"]       \* NewClient: one caller, everybody reachable
  /\ cur = [r \in Refs |-> ""] /\ att = [r \in Refs |-> RetryMax]
  /\ res = [r \in Refs |-> "none"] /\ anyUp = [r \in Refs |-> r = 1]
  /\ beh = NoBeh /\ req = <<>> /\ created = FALSE
  /\ win = [e \in EPs |-> 0] /\ isopen = {} /\ raced = [r \in Refs |-> FALSE]
  /\ hist = << <<"create", <<>>, NoBeh, "">> >>

Begin ==
  /\ \A r \in Refs : pc[r] = "idle"
  /\ created /\ Len(hist) < MaxSteps + 1
  /\ \E b \in Behs(Range(seeds) \cup Range(dead) \cup brokers), rq \in {<<>>, <<"t1">>} :
       /\ beh' = b /\ req' = rq
       \* candidates a caller can reach: live seeds and registered brokers (dead seeds only through a retry)
       /\ anyUp' = [r \in Refs |-> \/ (Range(seeds) \cup brokers) \ DOMAIN b # {}
                                   \/ (RetryMax > 0 /\ Range(dead) \ DOMAIN b # {})]
       /\ hist' = Append(hist, <<"same", rq, b, IF seeds = <<>> THEN "" ELSE Head(seeds)>>)
  /\ pc' = [r \in Refs |-> "pick"] /\ att' = [r \in Refs |-> RetryMax] /\ res' = [r \in Refs |-> "none"]
  /\ raced' = [r \in Refs |-> FALSE]
  /\ UNCHANGED <<seeds, dead, brokers, cur, created, win, isopen>>

(* any(): under client.lock.RLock pick the head seed, else SOME registered broker, and call Open on it.
   Broker.Open AS IT IS publishes opened=1 (CompareAndSwap) BEFORE it takes b.lock (conf.Validate()
   runs in between): the caller that wins the CompareAndSwap is "in the window" until OpenDone; every
   other caller that picks the same Broker meanwhile gets ErrAlreadyConnected, which any() ignores.   *)
PickOn(r, e) ==
  /\ cur' = [cur EXCEPT ![r] = e]
  /\ IF e \notin isopen /\ win[e] = 0
     THEN win' = [win EXCEPT ![e] = r] /\ pc' = [pc EXCEPT ![r] = "open"]
     ELSE UNCHANGED win /\ pc' = [pc EXCEPT ![r] = "wait"]
Pick(r) ==
  /\ pc[r] = "pick"
  /\ \/ seeds # <<>> /\ PickOn(r, Head(seeds))
     \/ seeds = <<>> /\ \E e \in brokers : PickOn(r, e)
     \/ /\ seeds = <<>> /\ brokers = {}
        /\ pc' = [pc EXCEPT ![r] = "res"] /\ UNCHANGED <<cur, win>>
  /\ UNCHANGED <<seeds, dead, brokers, att, res, anyUp, beh, req, created, hist, isopen, raced>>

\* the opener takes b.lock and dials (the lock is held until the connection stands); any() returns
OpenDone(r) ==
  /\ pc[r] = "open"
  /\ win' = [win EXCEPT ![cur[r]] = 0] /\ isopen' = isopen \cup {cur[r]}
  /\ pc' = [pc EXCEPT ![r] = "wait"]
  /\ UNCHANGED <<seeds, dead, brokers, cur, att, res, anyUp, beh, req, created, hist, raced>>

\* broker.GetMetadata(req)
Outcome(r) ==
  /\ pc[r] = "wait"
  /\ LET e == cur[r] IN
     IF win[e] # 0 \/ e \notin isopen
     THEN \* b.conn == nil: another caller is still inside the window (or closed the connection under us):
          \* ErrNotConnected, taken for a failed candidate like any other error
          /\ pc' = [pc EXCEPT ![r] = "fail"]
          /\ raced' = [raced EXCEPT ![r] = @ \/ e \notin down]
          /\ UNCHANGED <<brokers, res, created>>
     ELSE IF e \in down
     THEN /\ pc' = [pc EXCEPT ![r] = "fail"] /\ UNCHANGED <<brokers, res, created, raced>>
     ELSE \* updateMetadata (write lock) -> updateBroker: exactly the response's brokers
          /\ NoWindow
          /\ brokers' = WB
          /\ pc' = [pc EXCEPT ![r] = "idle"] /\ res' = [res EXCEPT ![r] = "none"]
          /\ created' = TRUE /\ UNCHANGED raced
  /\ UNCHANGED <<seeds, dead, cur, att, anyUp, beh, req, hist, win, isopen>>

\* _ = broker.Close(): closes the connection if there is one (also one another caller has just opened)
CloseFailed(r) ==
  /\ pc[r] = "fail"
  /\ isopen' = IF win[cur[r]] = 0 THEN isopen \ {cur[r]} ELSE isopen
  /\ pc' = [pc EXCEPT ![r] = "dereg"]
  /\ UNCHANGED <<seeds, dead, brokers, cur, att, res, anyUp, beh, req, created, hist, win, raced>>

\* deregisterBroker(cur[r]) as it is (write lock)
Dereg(r) ==
  /\ pc[r] = "dereg" /\ NoWindow
  /\ IF cur[r] \in Seeds
     THEN IF seeds # <<>> /\ Head(seeds) = cur[r]                      \* broker == client.seedBrokers[0]
          THEN seeds' = Tail(seeds) /\ dead' = Append(dead, cur[r]) /\ UNCHANGED brokers
          ELSE UNCHANGED <<seeds, dead, brokers>>                      \* delete(client.brokers, -1)
     ELSE brokers' = brokers \ {cur[r]} /\ UNCHANGED <<seeds, dead>>   \* delete(client.brokers, id)
  /\ pc' = [pc EXCEPT ![r] = "pick"]
  /\ UNCHANGED <<cur, att, res, anyUp, beh, req, created, hist, win, isopen, raced>>

Resurrect(r) ==
  /\ pc[r] = "res" /\ NoWindow
  /\ seeds' = seeds \o dead /\ dead' = <<>>
  /\ IF att[r] > 0
     THEN att' = [att EXCEPT ![r] = @ - 1] /\ pc' = [pc EXCEPT ![r] = "pick"] /\ UNCHANGED res
     ELSE pc' = [pc EXCEPT ![r] = "idle"] /\ res' = [res EXCEPT ![r] = "oob"] /\ UNCHANGED att
  /\ UNCHANGED <<brokers, cur, anyUp, beh, req, created, hist, win, isopen, raced>>

Next == Begin \/ \E r \in Refs : Pick(r) \/ OpenDone(r) \/ Outcome(r) \/ CloseFailed(r) \/ Dereg(r) \/ Resurrect(r)
Spec == Init /\ [][Next]_vars

TypeOK == /\ Range(seeds) \cap Range(dead) = {} /\ Range(seeds) \cup Range(dead) = Seeds
          /\ Len(seeds) + Len(dead) = 2
          /\ brokers \subseteq WB
\* refresh_succeeds_if_any_answers, per caller - as the statement has it. The code as it is VIOLATES it
\* (known finding F-C15-open-window: cfg MetadataRefreshers.finding.cfg expects this violation)
RefreshSucceedsStrict == \A r \in Refs : (pc[r] = "idle" /\ anyUp[r]) => res[r] # "oob"
\* ... and holds in every round in which no caller ran into the Open window
RefreshSucceeds == (\A r \in Refs : ~raced[r]) => RefreshSucceedsStrict

MCView == <<seeds, dead, brokers, pc, cur, att, res, anyUp, down, req, created, Len(hist), win, isopen, raced>>
\* role 2: one JSON case per choice of Begin (the rounds are what the harness replays; the interleavings
\* are the real client's). Generation stops right after the last Begin (CONSTRAINT GenBound).
Chosen == Len(hist) = MaxSteps + 1 /\ \A r \in Refs : pc[r] = "pick" /\ att[r] = RetryMax /\ res[r] = "none"
GenBound == ~(EmitCases /\ Len(hist) = MaxSteps + 1)
Emit == (EmitCases /\ Chosen) =>
          PrintT(<<"CASE", ToJson([fam |-> "cref", nref |-> NRef, retry |-> RetryMax,
                                   steps |-> [i \in 1..Len(hist) |-> StepJson(hist[i])]])>>)
=============================================================================
