------------------------------- MODULE Decoder -------------------------------
(* C10, role 1/2: the primitive contract of sarama's realDecoder (real_decoder.go) as a
   state machine over (buffer length, cursor, push stack).

   An adversary owns the bytes: before every primitive call it writes an arbitrary cell
   under the cursor. Cells are taken from boundary classes RELATIVE to what is left of the
   buffer (-2, -1/null, 0, exactly the remainder, remainder+1, 2^31-1, values that wrap
   around int, overlong varints). A "program" is the sequence of primitive calls a body
   decoder makes; TLC enumerates every program up to MaxOps calls over every buffer length
   in Lens. The payload bytes between cells are zero (the harness builds exactly that
   buffer), so that e.g. the strings of getStringArray are empty strings of 2 bytes each.

   Fixed = FALSE models the primitives AS THEY ARE in the pinned tree (unchecked compact
   lengths, negative array lengths handed out, getStringArray / getCompactInt32Array
   allocating before looking at the remainder); `breach` collects what the contract
   forbids. Fixed = TRUE models the bounds checks of /verif/fix.C10.patch.proposed; there
   the contract (NoBreach, NoCrash) is an invariant.

   Every maximal program is printed as a CASE (Emit); harness/inpkg/decoder_run_test.go
   replays it call by call on the REAL realDecoder and spec/DecoderTrace.tla judges what
   the code did (and compares it with the outcome predicted here).                      *)
EXTENDS Integers, Sequences, FiniteSets, TLC, Json

CONSTANTS Lens,          \* buffer lengths explored
          MaxOps,        \* calls per program
          MaxDepth,      \* open push fields
          Fixed,         \* FALSE: primitives as pinned; TRUE: with the proposed bounds checks
          Emit,          \* print maximal programs
          PushFirst      \* TRUE: only programs whose first call is a push (keeps the 3-call space replayable)

VARIABLES len, off, stack, st, prog, breach
vars == <<len, off, stack, st, prog, breach>>

BIG == 1000000                     \* stands for every value beyond any buffer explored
H == len - off

\* ---------------------------------------------------------------- cell classes
SL == {"m2", "m1", "z", "rem", "rem1", "max"}            \* signed fixed-width length cells
VL == SL \cup {"huge", "ovf"}                            \* zig-zag varint length cells
CL == {"null", "z", "rem", "rem1", "max", "wrap"}        \* compact (uvarint, length+1) cells

VarW(c) == CASE c = "max" -> 5 [] c \in {"huge", "ovf"} -> 10 [] OTHER -> 1
UvarW(c) == CASE c = "max" -> 5 [] c \in {"wrap", "ovf"} -> 10 [] OTHER -> 1

\* logical value of a signed cell when R bytes follow the header
SNum(c, R) == CASE c = "m2" -> -2 [] c = "m1" -> -1 [] c = "z" -> 0 [] c = "rem" -> R [] c = "rem1" -> R + 1
                [] c = "one" -> 1 [] c = "two" -> 2 [] OTHER -> BIG
SStr(c, R, mx) == CASE c = "max" -> mx [] c = "huge" -> "9223372036854775807" [] c = "ovf" -> "0" [] OTHER -> ToString(SNum(c, R))
\* logical length (n - 1) of a compact cell; "wrap" is n = 2^64-1, which int() turns into -2
CNum(c, R) == CASE c = "null" -> -1 [] c = "z" -> 0 [] c = "rem" -> R [] c = "rem1" -> R + 1 [] c = "wrap" -> -2 [] OTHER -> BIG
CStr(c, R) == CASE c = "null" -> "0" [] c = "z" -> "1" [] c = "rem" -> ToString(R + 1) [] c = "rem1" -> ToString(R + 2)
                [] c = "max" -> "2147483648" [] c = "wrap" -> "18446744073709551615" [] OTHER -> "0"
\* element counts (the header is read as an unsigned 32-bit number: -1 and -2 are 4 * 10^9)
ENum(c, R, E) == CASE c = "z" -> 0 [] c = "rem" -> R \div E [] c = "rem1" -> (R \div E) + 1 [] OTHER -> BIG
EStr(c, R, E) == CASE c = "m2" -> "-2" [] c = "m1" -> "-1" [] c = "max" -> "2147483647" [] OTHER -> ToString(ENum(c, R, E))

RetClass(v, R) == IF v < -1 THEN "neg" ELSE IF v = -1 THEN "null" ELSE IF v <= R THEN "within" ELSE "beyond"

\* ---------------------------------------------------------------- outcomes
\* [res, off1, retc, v, br, push, pop]
Out(res, o, retc, v, br) == [res |-> res, off1 |-> o, retc |-> retc, v |-> v, br |-> br, push |-> <<>>, pop |-> FALSE]
Ok(o, v) == Out("ok", o, "-", v, {})
Insuf(v) == Out("insufficient", len, "-", v, {})
Inval(o, v) == Out("invalid", o, "-", v, {})
Panic(o, v) == Out("panic", o, "-", v, {"panic"})
Oom(o, v) == Out("oom", o, "-", v, {"oom"})

FixInt(w) == IF H < w THEN Insuf("0") ELSE Ok(off + w, "0")

ArrayLength(c) ==
  IF H < 4 THEN Insuf("0") ELSE
  LET R == H - 4  v == SNum(c, R)  s == SStr(c, R, "2147483647") IN
  IF v > R THEN Insuf(s)
  ELSE IF Fixed /\ v < -1 THEN Inval(off + 4, s)
  ELSE Out("ok", off + 4, RetClass(v, R), s, IF v < -1 THEN {"len<-1"} ELSE {})

CompactArrayLength(c) ==
  LET W == UvarW(c) IN
  IF H < W THEN Insuf(CStr(c, 0)) ELSE
  LET R == H - W  l == CNum(c, R)  v == IF c = "null" THEN 0 ELSE l  s == CStr(c, R) IN
  IF Fixed /\ (v > R \/ c = "wrap") THEN Insuf(s)          \* fix: n-1 compared (unsigned) with the remainder
  ELSE Out("ok", off + W, RetClass(v, R), s, IF v < -1 THEN {"len<-1"} ELSE IF v > R THEN {"len>rem"} ELSE {})

String16(c) ==
  IF H < 2 THEN Insuf("0") ELSE
  LET R == H - 2  v == SNum(c, R)  s == SStr(c, R, "32767") IN
  IF v < -1 THEN Inval(off + 2, s)
  ELSE IF v > R THEN Insuf(s)
  ELSE IF v = -1 THEN Ok(off + 2, s) ELSE Ok(off + 2 + v, s)

CompactString(c, nullable) ==
  LET W == UvarW(c) IN
  IF H < W THEN Insuf(CStr(c, 0)) ELSE
  LET R == H - W  l == CNum(c, R)  s == CStr(c, R) IN
  IF Fixed THEN
     (IF c = "null" THEN (IF nullable THEN Ok(off + W, s) ELSE Inval(off + W, s))
      ELSE IF l > R \/ c = "wrap" THEN Insuf(s)
      ELSE Ok(off + W + l, s))
  ELSE IF nullable /\ l < 0 THEN Ok(off + W, s)              \* "if length < 0 { return nil, err }": 2^64-1 reads as null
  ELSE IF l < 0 THEN Panic(off + W, s)                       \* raw[off : off-1]
  ELSE IF l > R THEN Panic(off + W, s)                       \* raw[off : off+l] beyond the buffer
  ELSE Ok(off + W + l, s)

Bytes32(c) ==
  IF H < 4 THEN Insuf("0") ELSE
  LET R == H - 4  v == SNum(c, R)  s == SStr(c, R, "2147483647") IN
  IF v = -1 THEN Ok(off + 4, s)
  ELSE IF v < -1 THEN Inval(off + 4, s)
  ELSE IF v > R THEN Insuf(s) ELSE Ok(off + 4 + v, s)

VarintBytes(c) ==
  LET W == VarW(c) IN
  IF H < W THEN Insuf(SStr(c, 0, "2147483647")) ELSE
  IF c = "ovf" THEN Out("overflow", off + 10, "-", "0", {}) ELSE
  LET R == H - W  v == SNum(c, R)  s == SStr(c, R, "2147483647") IN
  IF v = -1 THEN Ok(off + W, s)
  ELSE IF v < -1 THEN Inval(off + W, s)
  ELSE IF v > R THEN Insuf(s) ELSE Ok(off + W + v, s)

CompactBytes(c) ==
  LET W == UvarW(c) IN
  IF H < W THEN Insuf(CStr(c, 0)) ELSE
  LET R == H - W  l == CNum(c, R)  s == CStr(c, R) IN
  IF l < 0 THEN Inval(off + W, s)
  ELSE IF l > R THEN Insuf(s) ELSE Ok(off + W + l, s)

RawBytes(c) ==
  LET v == SNum(c, H)  s == SStr(c, H, "2147483647") IN
  IF v < 0 THEN Inval(off, s)
  ELSE IF v > H THEN Insuf(s) ELSE Ok(off + v, s)

IntArray(c, E) ==
  IF H < 4 THEN Insuf("0") ELSE
  LET R == H - 4  n == ENum(c, R, E)  s == EStr(c, R, E) IN
  IF R < E * n THEN Insuf(s)
  ELSE Ok(off + 4 + E * n, s)

StringArray(c) ==          \* n strings; the zero payload makes each of them an empty string of 2 bytes
  IF H < 4 THEN Insuf("0") ELSE
  LET R == H - 4  n == ENum(c, R, 2)  s == EStr(c, R, 2) IN
  IF n = 0 THEN Ok(off + 4, s)
  ELSE IF Fixed /\ c = "m1" THEN Ok(off + 4, s)              \* fix: signed count, -1 is the null array
  ELSE IF Fixed /\ c = "m2" THEN Inval(off + 4, s)
  ELSE IF Fixed /\ 2 * n > R THEN Insuf(s)                   \* fix: every string takes >= 2 bytes
  ELSE IF n = BIG THEN Oom(off + 4, s)                        \* make([]string, n) before anything is checked
  ELSE IF 2 * n <= R THEN Ok(off + 4 + 2 * n, s) ELSE Insuf(s)

CompactInt32Array(c) ==
  LET W == UvarW(c) IN
  IF H < W THEN Insuf(CStr(c, 0)) ELSE
  LET R == H - W  k == R \div 4
      l == CASE c = "null" -> -1 [] c = "z" -> 0 [] c = "rem" -> k [] c = "rem1" -> k + 1 [] c = "wrap" -> -2 [] OTHER -> BIG
      s == CASE c = "rem" -> ToString(k + 1) [] c = "rem1" -> ToString(k + 2) [] OTHER -> CStr(c, R) IN
  IF c = "null" THEN Ok(off + W, s)
  ELSE IF l < 0 THEN (IF Fixed THEN Insuf(s) ELSE Panic(off + W, s))                  \* make([]int32, -2)
  ELSE IF 4 * l > R THEN
       (IF Fixed THEN Insuf(s)
        ELSE IF l = BIG THEN Oom(off + W, s)                                          \* make([]int32, 2^31-1)
        ELSE Panic(off + W + 4 * k, s))                                               \* Uint32(raw[off:]) on < 4 bytes
  ELSE Ok(off + W + 4 * l, s)

Varint(c) ==
  LET W == VarW(c) IN
  IF H < W THEN Insuf(SStr(c, 0, "2147483647"))
  ELSE IF c = "ovf" THEN Out("overflow", off + 10, "-", "0", {})
  ELSE Ok(off + W, SStr(c, 0, "2147483647"))

UVarint(c) ==
  LET W == UvarW(c) IN
  IF H < W THEN Insuf(CStr(c, 0))
  ELSE IF c = "ovf" THEN Out("overflow", off + 10, "-", "0", {})
  ELSE Ok(off + W, CStr(c, 0))

Tagged(c) == IF H < 1 THEN Insuf("0") ELSE IF c = "z" THEN Ok(off + 1, "0") ELSE Inval(off + 1, "1")
Bool(c) == IF H < 1 THEN Insuf("0") ELSE IF c = "b2" THEN Inval(off + 1, "2") ELSE Ok(off + 1, IF c = "b1" THEN "1" ELSE "0")

PeekInt8(c) ==             \* never moves the cursor, not even on failure
  LET v == IF c = "z" THEN 0 ELSE IF c = "last" THEN H - 1 ELSE H IN
  IF H < v + 1 THEN Out("insufficient", off, "-", ToString(v), {}) ELSE Ok(off, ToString(v))
Peek(c) ==
  LET v == SNum(c, H) IN
  IF H < v THEN Out("insufficient", off, "-", ToString(v), {}) ELSE Ok(off, ToString(v))

PushLen(c) ==              \* lengthField is a dynamic push decoder: the length is read (and checked against the remainder) at push
  IF H < 4 THEN Insuf("0") ELSE
  LET R == H - 4  v == SNum(c, R)  s == SStr(c, R, "2147483647") IN
  IF v > R THEN Out("insufficient", off + 4, "-", s, {})
  ELSE [Ok(off + 4, s) EXCEPT !.push = <<[k |-> "len", start |-> off, v |-> v, w |-> 4]>>]
PushCrc == IF H < 4 THEN Insuf("0") ELSE [Ok(off + 4, "0") EXCEPT !.push = <<[k |-> "crc", start |-> off, v |-> 0, w |-> 4]>>]
PushVarLen(c) ==
  LET W == VarW(c) IN
  IF H < W THEN Insuf(SStr(c, 0, "2147483647"))
  ELSE IF c = "ovf" THEN Out("overflow", off + 10, "-", "0", {})
  ELSE LET v == SNum(c, 0) IN [Ok(off + W, SStr(c, 0, "2147483647")) EXCEPT !.push = <<[k |-> "var", start |-> off, v |-> v, w |-> W]>>]
Pop(c) ==
  LET top == stack[Len(stack)]
      good == IF top.k = "crc" THEN c = "good" ELSE off - top.start - top.w = top.v IN
  [(IF good THEN Ok(off, "0") ELSE Inval(off, "0")) EXCEPT !.pop = TRUE]

\* ---------------------------------------------------------------- the calls
Calls ==
  [op : {"getInt8", "getInt16", "getInt32", "getInt64", "pushCrc"}, cls : {"z"}]
  \cup [op : {"getBool"}, cls : {"b0", "b1", "b2"}]
  \cup [op : {"getEmptyTaggedFieldArray"}, cls : {"z", "one"}]
  \cup [op : {"getVarint"}, cls : {"m2", "z", "max", "huge", "ovf"}]
  \cup [op : {"getUVarint"}, cls : {"z", "max", "wrap", "ovf"}]
  \cup [op : {"getArrayLength", "getString", "getNullableString", "getBytes", "getRawBytes", "getSubset",
              "getInt32Array", "getInt64Array", "getStringArray"}, cls : SL]
  \cup [op : {"getVarintBytes"}, cls : VL]
  \cup [op : {"getCompactArrayLength", "getCompactString", "getCompactNullableString", "getCompactBytes", "getCompactInt32Array"}, cls : CL]
  \cup [op : {"peekInt8"}, cls : {"z", "last", "rem"}]
  \cup [op : {"peek"}, cls : {"z", "rem", "rem1"}]
  \cup [op : {"pushLen"}, cls : {"m1", "z", "two", "rem", "rem1", "max"}]
  \cup [op : {"pushVarLen"}, cls : {"m1", "z", "two", "huge", "ovf"}]
  \cup [op : {"pop"}, cls : {"good", "bad"}]

IsPush(c) == c.op \in {"pushLen", "pushCrc", "pushVarLen"}

Outcome(c) ==
  CASE c.op = "getInt8" -> FixInt(1) [] c.op = "getInt16" -> FixInt(2) [] c.op = "getInt32" -> FixInt(4) [] c.op = "getInt64" -> FixInt(8)
    [] c.op = "getBool" -> Bool(c.cls) [] c.op = "getEmptyTaggedFieldArray" -> Tagged(c.cls)
    [] c.op = "getVarint" -> Varint(c.cls) [] c.op = "getUVarint" -> UVarint(c.cls)
    [] c.op = "getArrayLength" -> ArrayLength(c.cls) [] c.op = "getCompactArrayLength" -> CompactArrayLength(c.cls)
    [] c.op \in {"getString", "getNullableString"} -> String16(c.cls)
    [] c.op = "getCompactString" -> CompactString(c.cls, FALSE) [] c.op = "getCompactNullableString" -> CompactString(c.cls, TRUE)
    [] c.op = "getBytes" -> Bytes32(c.cls) [] c.op = "getVarintBytes" -> VarintBytes(c.cls) [] c.op = "getCompactBytes" -> CompactBytes(c.cls)
    [] c.op \in {"getRawBytes", "getSubset"} -> RawBytes(c.cls)
    [] c.op = "getInt32Array" -> IntArray(c.cls, 4) [] c.op = "getInt64Array" -> IntArray(c.cls, 8)
    [] c.op = "getStringArray" -> StringArray(c.cls) [] c.op = "getCompactInt32Array" -> CompactInt32Array(c.cls)
    [] c.op = "peekInt8" -> PeekInt8(c.cls) [] c.op = "peek" -> Peek(c.cls)
    [] c.op = "pushLen" -> PushLen(c.cls) [] c.op = "pushCrc" -> PushCrc [] c.op = "pushVarLen" -> PushVarLen(c.cls)
    [] c.op = "pop" -> Pop(c.cls)

Enabled(c) ==
  /\ IsPush(c) => Len(stack) < MaxDepth
  /\ c.op = "pop" => /\ Len(stack) > 0
                     /\ (stack[Len(stack)].k # "crc") => c.cls = "good"      \* only a CRC field is (re)written at pop
  /\ (c.op = "peekInt8" /\ c.cls = "last") => H >= 1
  /\ (PushFirst /\ prog = <<>>) => IsPush(c)
  \* when not even the smallest header fits every class behaves alike: keep one
  /\ (H = 0 /\ c.op \notin {"getRawBytes", "getSubset", "peek", "peekInt8", "pop"}) => c.cls \in {"z", "b0", "m2", "m1", "null", "good"}

Init == /\ len \in Lens /\ off = 0 /\ stack = <<>> /\ st = "run" /\ prog = <<>> /\ breach = {}

Call(c) ==
  /\ st = "run" /\ Len(prog) < MaxOps /\ Enabled(c)
  /\ LET o == Outcome(c) IN
     /\ off' = o.off1
     /\ stack' = IF o.pop THEN SubSeq(stack, 1, Len(stack) - 1) ELSE stack \o o.push
     /\ st' = IF o.res = "ok" THEN "run" ELSE IF o.res \in {"panic", "oom"} THEN o.res ELSE "err"
     /\ prog' = Append(prog, [op |-> c.op, cls |-> c.cls, v |-> o.v, off0 |-> off, res |-> o.res, off1 |-> o.off1, retc |-> o.retc])
     /\ breach' = breach \cup {<<c.op, c.cls, b>> : b \in o.br}
  /\ UNCHANGED len

Next == \E c \in Calls : Call(c)
Spec == Init /\ [][Next]_vars

\* ---------------------------------------------------------------- the contract
TypeOK == /\ len \in Lens /\ off \in Int /\ st \in {"run", "err", "panic", "oom"} /\ Len(prog) <= MaxOps /\ Len(stack) <= MaxDepth
\* the cursor never leaves the buffer, whatever the bytes are (holds for the pinned primitives too)
CursorInBounds == 0 <= off /\ off <= len
\* an open push field lies inside the consumed part
StackSane == \A i \in 1..Len(stack) : stack[i].start + stack[i].w <= off /\ (i > 1 => stack[i - 1].start < stack[i].start)
\* every failed call is final; a successful one advanced or left the cursor (peek, pop, empty reads)
Monotone == \A i \in 1..Len(prog) : prog[i].off0 <= prog[i].off1 /\ (i < Len(prog) => prog[i].res = "ok")
\* --- only with the proposed fix:
\* a length handed to a body is -1 / within the remainder; no primitive panics or allocates before checking
NoBreach == breach = {}
NoCrash == st \notin {"panic", "oom"}
LengthsWithinRemainder == \A i \in 1..Len(prog) : prog[i].retc \in {"-", "null", "within"}

Terminal == st # "run" \/ Len(prog) = MaxOps
EmitInv == (Emit /\ Terminal /\ prog # <<>>) => PrintT(<<"CASE", ToJson([len |-> len, steps |-> prog])>>)
=============================================================================
