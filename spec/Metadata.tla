------------------------------- MODULE Metadata -------------------------------
(* C15 - the sarama client's metadata cache (client.go) as a state machine, together with
   the simulated cluster ("world") it talks to.

   world     the cluster: broker id -> address variant, controller id, topic states
             (absent / ok / topic-level LEADER_NOT_AVAILABLE / error classes) and partitions
   client    seeds, deadSeeds, brokers, metadata, cachedPartitionsResults, metadataTopics,
             controllerID exactly as client.go keeps them
   ref       the declarative reference: MetadataView!Fold of the responses served so far

   One step of a behaviour = the environment mutates the world (Begin), then the client runs
   tryRefreshMetadata: candidate iteration in small steps (TrySeed / TryBroker / Exhausted,
   `any()` = first seed else SOME registered broker, failing candidates deregistered, dead
   seeds resurrected when nothing is left, Retry.Max attempts) until a candidate answers and
   the response is folded into the cache by Apply = client.updateMetadata (944-1009).
   The clauses of C15 are invariants relating the cache (read the way the read APIs read it)
   to ref.  Behaviours (hist) are emitted as JSON cases and replayed on the real client.     *)
EXTENDS MetadataView, TLC, Json

CONSTANTS Topics,        \* {"t1","t2"}
          MaxSteps,      \* refreshes after client creation
          RetryMax,      \* Metadata.Retry.Max
          Fam,           \* "content" | "reach" | "conc": which part of the alphabet is explored
          BothOrders,    \* TRUE: both initial seed orders (NewClient shuffles the seeds)
          Kinds,         \* how a candidate that does not answer misbehaves (subset of KSeq's elements)
          MixKinds,      \* TRUE: besides one kind for all failing candidates also rotations (a different kind each)
          MaxDown,       \* at most this many failing candidates per refresh
          EmitCases

Parts == {0, 1}
SeedOrders == IF BothOrders THEN {<<"s1", "s2">>, <<"s2", "s1">>} ELSE {<<"s1", "s2">>}
BIds == {1, 2, 3}
Seeds == {"s1", "s2"}
EPSeq == <<"s1", "s2", "b1a", "b1b", "b2a", "b3a">>
TSeq == <<"t1", "t2">>
EP(id, v) == CASE id = 1 /\ v = "a" -> "b1a" [] id = 1 /\ v = "b" -> "b1b"
               [] id = 2 -> "b2a" [] OTHER -> "b3a"
Leaders == {1, 2, 3, 4}            \* 4 = an id that is never a broker
PErrs == {"none", "lna", "rna"}
TStates == {"absent", "ok", "lna", "unknown", "invalid", "auth", "other"}
Off == [on |-> FALSE, err |-> "none", leader |-> 1, rv |-> 1]
Desc(e, l, r) == [on |-> TRUE, err |-> e, leader |-> l, rv |-> r]

VARIABLES world, seeds, dead, cbrokers, cctrl, cstored, cparts, ccached, call, cwr, cmtopics,
          ref, pc, attempts, req, beh, result, anyUp, created, hist

cvars == <<seeds, dead, cbrokers, cctrl, cstored, cparts, ccached, call, cwr, cmtopics>>
vars == <<world, cvars, ref, pc, attempts, req, beh, result, anyUp, created, hist>>
\* beh: candidate endpoint -> kind of misbehaviour, for the candidates that do not answer this refresh
down == DOMAIN beh

-----------------------------------------------------------------------------
(* ---------- the world and the responses it serves ---------- *)
Nx(l) == IF l >= 3 THEN 1 ELSE l + 1
Pv(l) == IF l = 1 THEN 3 ELSE IF l = 4 THEN 2 ELSE l - 1
Expand(p, d) ==
  IF d.rv = 1 THEN <<p, d.err, d.leader, <<d.leader, Nx(d.leader)>>, <<d.leader>>, <<>> >>
  ELSE <<p, d.err, d.leader, <<Nx(d.leader), d.leader, Pv(d.leader)>>, <<Nx(d.leader), d.leader>>, <<Pv(d.leader)>> >>

\* partitions are served in DESCENDING id order: the client has to sort
PartsSeq(w, t) ==
  (IF w.parts[t][1].on THEN <<Expand(1, w.parts[t][1])>> ELSE <<>>) \o
  (IF w.parts[t][0].on THEN <<Expand(0, w.parts[t][0])>> ELSE <<>>)
Dummy == <<Expand(0, Desc("none", 1, 1))>>
TopicEntry(w, t) ==
  CASE w.ts[t] = "absent" -> <<t, "unknown", <<>> >>
    [] w.ts[t] = "ok" -> <<t, "none", PartsSeq(w, t)>>
    [] w.ts[t] = "lna" -> <<t, "lna", PartsSeq(w, t)>>
    [] OTHER -> <<t, w.ts[t], Dummy>>       \* error answers carry partial results that must not be stored
BrokerSeq(w) == LET F(id) == IF w.baddr[id] = "-" THEN <<>> ELSE << <<id, EP(id, w.baddr[id])>> >>
                IN F(1) \o F(2) \o F(3)
Response(w, rq) ==
  LET names == IF rq = <<>> THEN SelectSeq(TSeq, LAMBDA t : t \in Topics /\ w.ts[t] # "absent") ELSE rq IN
  [full |-> rq = <<>>, ctrl |-> w.ctrl, brokers |-> BrokerSeq(w),
   topics |-> [i \in 1..Len(names) |-> TopicEntry(w, names[i])]]

W0 == [baddr |-> [id \in BIds |-> IF id = 3 THEN "-" ELSE "a"], ctrl |-> 1,
       ts |-> [t \in Topics |-> IF t = "t1" THEN "ok" ELSE "absent"],
       \* t2 does not exist yet; when it appears it has one partition led by broker 2
       parts |-> [t \in Topics |-> [p \in Parts |-> IF t = "t1" THEN Desc("none", p + 1, 1)
                                                      ELSE IF p = 0 THEN Desc("none", 2, 2) ELSE Off]]]
W0conc == [W0 EXCEPT !.ts = [t \in Topics |-> "ok"],
                     !.parts = [t \in Topics |-> [p \in Parts |-> Desc("none", p + 1, 1)]]]

PresentB(w) == {id \in BIds : w.baddr[id] # "-"}
\* worlds in which no read API can miss (so that readers never refresh on their own)
Safe(w) == /\ w.ctrl \in PresentB(w)
           /\ \A t \in Topics : /\ w.ts[t] = "ok"
                                /\ \E p \in Parts : w.parts[t][p].on
                                /\ \A p \in Parts : w.parts[t][p].on =>
                                      w.parts[t][p].leader \in PresentB(w) /\ w.parts[t][p].err # "lna"

Str(x) == ToString(x)
SetPart(w, t, p, d) == [w EXCEPT !.parts[t][p] = d]
MutTopic(w) == {[m |-> "topic:" \o t \o "=" \o s, w |-> [w EXCEPT !.ts[t] = s]] :
                  <<t, s>> \in {x \in Topics \X TStates : w.ts[x[1]] # x[2]}}
MutPart(w) ==
  LET on == {x \in Topics \X Parts : w.parts[x[1]][x[2]].on}
      off == (Topics \X Parts) \ on IN
  {[m |-> "leader:" \o x[1][1] \o "/" \o Str(x[1][2]) \o "=" \o Str(x[2]),
    w |-> SetPart(w, x[1][1], x[1][2], [w.parts[x[1][1]][x[1][2]] EXCEPT !.leader = x[2]])] :
       x \in {y \in on \X Leaders : w.parts[y[1][1]][y[1][2]].leader # y[2]}}
  \cup {[m |-> "perr:" \o x[1][1] \o "/" \o Str(x[1][2]) \o "=" \o x[2],
    w |-> SetPart(w, x[1][1], x[1][2], [w.parts[x[1][1]][x[1][2]] EXCEPT !.err = x[2]])] :
       x \in {y \in on \X PErrs : w.parts[y[1][1]][y[1][2]].err # y[2]}}
  \cup {[m |-> "replicas:" \o x[1] \o "/" \o Str(x[2]),
    w |-> SetPart(w, x[1], x[2], [w.parts[x[1]][x[2]] EXCEPT !.rv = 3 - @])] : x \in on}
  \cup {[m |-> "delpart:" \o x[1] \o "/" \o Str(x[2]), w |-> SetPart(w, x[1], x[2], Off)] : x \in on}
  \cup {[m |-> "addpart:" \o x[1] \o "/" \o Str(x[2]), w |-> SetPart(w, x[1], x[2], Desc("none", 2, 2))] : x \in off}
MutBroker(w) ==
  {[m |-> "delbroker:" \o Str(id), w |-> [w EXCEPT !.baddr[id] = "-"]] : id \in PresentB(w)}
  \cup {[m |-> "addbroker:" \o Str(id), w |-> [w EXCEPT !.baddr[id] = "a"]] : id \in BIds \ PresentB(w)}
  \cup (IF 1 \in PresentB(w)
        THEN {[m |-> "readdress:1", w |-> [w EXCEPT !.baddr[1] = IF @ = "a" THEN "b" ELSE "a"]]} ELSE {})
MutCtrl(w) == {[m |-> "ctrl:" \o Str(c), w |-> [w EXCEPT !.ctrl = c]] : c \in {1, 2} \ {w.ctrl}}
Same(w) == {[m |-> "same", w |-> w]}

Muts(w) ==
  CASE Fam = "content" -> Same(w) \cup MutTopic(w) \cup MutPart(w) \cup MutBroker(w) \cup MutCtrl(w)
    [] Fam = "reach" -> Same(w) \cup MutBroker(w)
    [] OTHER -> {x \in MutPart(w) \cup MutBroker(w) \cup MutCtrl(w) : Safe(x.w)}

Reqs == IF Fam = "reach" THEN {<<>>, <<"t1">>}
        ELSE {<<>>, <<"t1">>, <<"t2">>, <<"t1", "t2">>}

Known == {cbrokers[id] : id \in {i \in BIds : cbrokers[i] # "-"}}
Candidates == Range(seeds) \cup Range(dead) \cup Known
(* A candidate either answers or misbehaves in one of these ways. In the code as it is every one of
   them ends in the `default:` branch of tryRefreshMetadata's error switch (io.EOF, timeout, refused
   dial, and PacketDecodingError from an undecodable frame / wrong correlation id / trailing bytes
   alike): broker.Close(), deregisterBroker, next candidate. So the kind does not change the
   transitions below; it is part of the behaviour handed to the harness, which makes the peer
   misbehave exactly that way.                                                                   *)
KSeq == <<"refuse", "reset", "close", "garbage", "corrid", "trailing", "silent">>
KS == SelectSeq(KSeq, LAMBDA k : k \in Kinds)
Pos(e) == CHOOSE i \in 1..Len(EPSeq) : EPSeq[i] = e
KindMaps(d) == {[e \in d |-> k] : k \in Kinds}
               \cup (IF MixKinds THEN {[e \in d |-> KS[((Pos(e) + r) % Len(KS)) + 1]] : r \in 0..(Len(KS) - 1)} ELSE {})
DownSets(C) == IF Fam = "reach" THEN {d \in SUBSET C : Cardinality(d) <= MaxDown} ELSE {{}}
Behs(C) == UNION {KindMaps(d) : d \in DownSets(C)}

-----------------------------------------------------------------------------
(* ---------- JSON shape of a behaviour step (what the Go harness replays) ---------- *)
WorldJson(w) ==
  [brokers |-> BrokerSeq(w), ctrl |-> w.ctrl,
   topics |-> [i \in 1..Len(TSeq) |-> <<TSeq[i], w.ts[TSeq[i]], TopicEntry(w, TSeq[i])[3]>>]]
\* hist keeps the raw step <<mutation name, world, request, beh>>; JSON only when emitted
StepRaw(m, w, rq, d, hw) == <<m, w, rq, d, hw>>
(* How the application asks for a FULL refresh: RefreshMetadata() / RefreshMetadata(nilSlice...) /
   RefreshMetadata([]string{}...). client.go treats all three alike (len(topics) = 0: full refresh, caches
   reset) and MetadataRequest.encode AS IT IS sends all three as "every topic" (a null array from v1 on,
   an empty array in v0), so the way of asking does not change the transitions; it is part of the
   behaviour handed to the harness, whose responder answers the raw request bytes the way Kafka does
   (v1+: null = all topics, empty array = no topic; v0: empty array = all topics).                  *)
Hows(rq) == IF rq = <<>> THEN {"noargs", "nil", "empty"} ELSE {"list"}
StepJson(h) ==
  [mut |-> h[1], world |-> WorldJson(h[2]), req |-> h[3], how |-> h[5], down |-> SelectSeq(EPSeq, LAMBDA e : e \in DOMAIN h[4]),
   modes |-> LET ds == SelectSeq(EPSeq, LAMBDA e : e \in DOMAIN h[4]) IN [i \in 1..Len(ds) |-> h[4][ds[i]]]]

-----------------------------------------------------------------------------
InitWorld == IF Fam = "conc" THEN W0conc ELSE W0
Init ==
  /\ world = InitWorld
  /\ seeds \in SeedOrders /\ dead = <<>>
  /\ cbrokers = [id \in BIds |-> "-"] /\ cctrl = 0
  /\ cstored = {} /\ cparts = [t \in Topics |-> {}] /\ ccached = {}
  /\ call = [t \in Topics |-> <<>>] /\ cwr = [t \in Topics |-> <<>>] /\ cmtopics = {}
  /\ ref = RefInit
  /\ pc = "try" /\ attempts = RetryMax /\ req = <<>> /\ result = "none" /\ created = FALSE
  \* client creation (NewClient: full refresh) with a subset of the seeds unreachable
  /\ beh \in Behs(Seeds)
  /\ anyUp = (Seeds \ DOMAIN beh # {})
  /\ hist = <<StepRaw("create", InitWorld, <<>>, beh, "noargs")>>

\* the environment changes the cluster, then somebody calls RefreshMetadata(req...)
Begin ==
  /\ pc = "idle" /\ created /\ Len(hist) < MaxSteps + 1
  /\ \E mu \in Muts(world), rq \in Reqs, b \in Behs(Candidates) : \E hw \in Hows(rq) :
       /\ world' = mu.w
       /\ req' = rq /\ beh' = b
       /\ anyUp' = (Candidates \ DOMAIN b # {})
       /\ hist' = Append(hist, StepRaw(mu.m, mu.w, rq, b, hw))
  /\ pc' = "try" /\ attempts' = RetryMax /\ result' = "none"
  /\ UNCHANGED <<cvars, ref, created>>

Finish(res, served) ==
  /\ pc' = "idle" /\ result' = res
  /\ created' = (created \/ served)

\* client.updateMetadata: fold one response into the cache, in one critical section
Apply ==
  LET resp == Response(world, req)
      names == RespNames(resp)
      st == RespStored(resp)
      base(S) == IF resp.full THEN {} ELSE S
      ents == Range(resp.topics)
      partsOf(t) == Range(RespParts(resp, t))
      retry == \E e \in ents : \/ RetryClass(e[2])
                               \/ (StoreClass(e[2]) /\ \E q \in Range(e[3]) : q[2] = "lna")
      \* err = topic.Err of the LAST reporting topic in response order
      repIdx == {i \in DOMAIN resp.topics : ReportClass(resp.topics[i][2])}
      err == IF repIdx = {} THEN "none"
             ELSE resp.topics[CHOOSE i \in repIdx : \A j \in repIdx : j <= i][2]
  IN
  /\ cbrokers' = [id \in BIds |-> IF \E b \in Range(resp.brokers) : b[1] = id
                                  THEN (CHOOSE b \in Range(resp.brokers) : b[1] = id)[2] ELSE "-"]
  /\ cctrl' = resp.ctrl
  /\ cmtopics' = base(cmtopics) \cup names
  /\ cstored' = (base(cstored) \ names) \cup st
  /\ ccached' = (base(ccached) \ names) \cup st
  /\ cparts' = [t \in Topics |-> IF t \in st THEN partsOf(t)
                                 ELSE IF t \in names \/ resp.full THEN {} ELSE cparts[t]]
  /\ call' = [t \in Topics |-> IF t \in st THEN SortInts({q[1] : q \in partsOf(t)})
                                ELSE IF t \in names \/ resp.full THEN <<>> ELSE call[t]]
  /\ cwr' = [t \in Topics |-> IF t \in st THEN SortInts({q[1] : q \in {x \in partsOf(t) : x[2] # "lna"}})
                               ELSE IF t \in names \/ resp.full THEN <<>> ELSE cwr[t]]
  /\ ref' = Fold(ref, resp)
  /\ IF retry /\ attempts > 0
     THEN /\ attempts' = attempts - 1
          /\ UNCHANGED <<pc, result>> /\ created' = TRUE
     ELSE Finish(err, TRUE) /\ UNCHANGED attempts

TrySeed ==
  /\ pc = "try" /\ seeds # <<>>
  /\ IF Head(seeds) \in down
     THEN /\ seeds' = Tail(seeds) /\ dead' = Append(dead, Head(seeds))     \* deregisterBroker(seed)
          /\ UNCHANGED <<cbrokers, cctrl, cstored, cparts, ccached, call, cwr, cmtopics, ref, pc, attempts, result, created>>
     ELSE Apply /\ UNCHANGED <<seeds, dead>>
  /\ UNCHANGED <<world, req, beh, anyUp, hist>>

TryBroker(id) ==                                                          \* any(): SOME registered broker
  /\ pc = "try" /\ seeds = <<>> /\ cbrokers[id] # "-"
  /\ IF cbrokers[id] \in down
     THEN /\ cbrokers' = [cbrokers EXCEPT ![id] = "-"]                    \* deregisterBroker(broker)
          /\ UNCHANGED <<seeds, dead, cctrl, cstored, cparts, ccached, call, cwr, cmtopics, ref, pc, attempts, result, created>>
     ELSE Apply /\ UNCHANGED <<seeds, dead>>
  /\ UNCHANGED <<world, req, beh, anyUp, hist>>

Exhausted ==                                                              \* no candidate left
  /\ pc = "try" /\ seeds = <<>> /\ \A id \in BIds : cbrokers[id] = "-"
  /\ seeds' = dead /\ dead' = <<>>                                        \* resurrectDeadBrokers
  /\ IF attempts > 0
     THEN attempts' = attempts - 1 /\ UNCHANGED <<pc, result, created>>
     ELSE Finish("oob", FALSE) /\ UNCHANGED attempts
  /\ UNCHANGED <<world, cbrokers, cctrl, cstored, cparts, ccached, call, cwr, cmtopics, ref, req, beh, anyUp, hist>>

Next == Begin \/ TrySeed \/ (\E id \in BIds : TryBroker(id)) \/ Exhausted
Spec == Init /\ [][Next]_vars

-----------------------------------------------------------------------------
(* ---------- the cache read the way the read APIs read it (hit paths) ---------- *)
CHasPart(t, p) == t \in cstored /\ \E q \in cparts[t] : q[1] = p
CPart(t, p) == CHOOSE q \in cparts[t] : q[1] = p
CPartitions(t) == IF t \in ccached /\ Len(call[t]) > 0 THEN Ans(TRUE, call[t], "") ELSE Fail
CWritable(t) == IF t \in ccached THEN Ans(TRUE, cwr[t], "") ELSE Fail
CLeader(t, p) ==
  IF ~CHasPart(t, p) THEN Fail
  ELSE LET q == CPart(t, p) IN
       IF q[2] = "lna" THEN Ans(FALSE, <<>>, "lna")
       ELSE IF q[3] \notin BIds \/ cbrokers[q[3]] = "-" THEN Ans(FALSE, <<>>, "lna")
       ELSE Ans(TRUE, <<q[3], cbrokers[q[3]]>>, "")
CRepl(t, p, k) == IF ~CHasPart(t, p) THEN Fail
                  ELSE Ans(TRUE, CPart(t, p)[k], IF CPart(t, p)[2] = "rna" THEN "rna" ELSE "")
CBrokers == {<<id, cbrokers[id]>> : id \in {i \in BIds : cbrokers[i] # "-"}}
CController == IF cctrl \in BIds /\ cbrokers[cctrl] # "-" THEN Ans(TRUE, <<cctrl, cbrokers[cctrl]>>, "") ELSE Fail

Quiet == pc = "idle" /\ created
Served == Quiet /\ result # "oob"

(* ---------- the clauses of C15 as invariants ---------- *)
PartitionsSortedExact == Quiet => \A t \in Topics : CPartitions(t) = VPartitions(ref, t)
WritableExact == Quiet => \A t \in Topics : CWritable(t) = VWritable(ref, t)
LeaderExactOrUnavailable == Served => \A t \in Topics, p \in Parts : CLeader(t, p) = VLeader(ref, t, p)
LeaderNeverStale ==          \* even after a failed refresh a leader is a broker of the newest response or unavailable
  Quiet => \A t \in Topics, p \in Parts : CLeader(t, p).ok => CLeader(t, p) = VLeader(ref, t, p)
ReplicasExact == Quiet => \A t \in Topics, p \in Parts, k \in {4, 5, 6} : CRepl(t, p, k) = VRepl(ref, t, p, k)
TopicErrorClass == Quiet => /\ cstored = VTopics(ref)
                            /\ (Served /\ Len(hist) > 0) => ReportedOk(Response(world, req), result)
BrokersReconciled == /\ Served => CBrokers = ref.brokers /\ CController = VController(ref)
                     /\ Quiet => CBrokers \subseteq ref.brokers
RefreshSucceeds == (pc = "idle" /\ anyUp) => result # "oob"
CreationSucceeds == (pc = "idle" /\ Len(hist) = 1 /\ anyUp) => created
TypeOK == /\ pc \in {"idle", "try"} /\ attempts \in 0..RetryMax
          /\ Range(seeds) \cap Range(dead) = {} /\ Range(seeds) \cup Range(dead) = Seeds

\* model-checking view: the recorded behaviour itself is not part of the state
MCView == <<world, cvars, ref, pc, attempts, req, down, result, anyUp, created, Len(hist)>>   \* the kind is not part of the view: see KSeq

\* role 2: every maximal behaviour is one JSON case
Terminal == pc = "idle" /\ (Len(hist) = MaxSteps + 1 \/ ~created)
Emit == (EmitCases /\ Terminal) => PrintT(<<"CASE", ToJson([fam |-> Fam, steps |-> [i \in 1..Len(hist) |-> StepJson(hist[i])]])>>)
=============================================================================
