-------------------------- MODULE ConsumerObsTrace --------------------------
(* API-level observer for the consumer properties C03 C11 C18 (consumer part) and the consumer
   part of C12: a TOTAL trace specification over what an application observes from a REAL
   PartitionConsumer reading a partition of the simulated cluster.

   The partition log is given to the observer as it is stored: a sequence of batches
   [fmt, offs, pid, txn, ctl] (logdef / logappend events). The oracle is

      Visible(log, S, iso) = the non-control records with offset >= S, minus - under
                             read-committed - the records of aborted transactions and
                             everything from the last stable offset on, in offset order,

   and the clauses say that the delivered stream is a prefix of Visible (nothing skipped,
   duplicated, reordered, invisible or altered) and equals it when the scenario ends with the
   partition reachable (expect_all).                                                      *)
EXTENDS ConsumerOracle, TLC, Json

Trace == ndJsonDeserialize("trace.ndjson")

VARIABLES l, cfg,
          logs,     \* part -> sequence of batches
          startAt,  \* part -> resolved start offset
          deliv,    \* part -> sequence of delivered offsets
          icount,   \* <<chain, part, off>> -> interceptor invocations
          phase,    \* part -> "open" | "closing" | "closed"
          viol, stats
vars == <<l, cfg, logs, startAt, deliv, icount, phase, viol, stats>>

E == Trace[l]
V(c) == {<<E.t, E.i, c>>}
When(cond, c) == IF cond THEN V(c) ELSE {}
Get(f, k, d) == IF k \in DOMAIN f THEN f[k] ELSE d
Put(f, k, v) == [x \in DOMAIN f \cup {k} |-> IF x = k THEN v ELSE f[x]]

NoCfg == [iso |-> "ru", interceptors |-> 0, family |-> "-", name |-> "-"]
Stats0 == [traces |-> 0, events |-> 0, delivered |-> 0, fetches |-> 0, faults |-> 0, errors |-> 0, stalls |-> 0,
           unsteered |-> 0, skipped |-> 0, simerr |-> 0, complete |-> 0]
Init == /\ l = 1 /\ cfg = NoCfg /\ logs = <<>> /\ startAt = <<>> /\ deliv = <<>> /\ icount = <<>> /\ phase = <<>>
        /\ viol = {} /\ stats = Stats0
Bump(f) == [stats EXCEPT ![f] = @ + 1, !.events = @ + 1]
Tick == [stats EXCEPT !.events = @ + 1]

-----------------------------------------------------------------------------
(* the oracle: see ConsumerOracle *)
-----------------------------------------------------------------------------
TReset ==
  /\ E.ev = "reset"
  /\ cfg' = E /\ logs' = <<>> /\ startAt' = <<>> /\ deliv' = <<>> /\ icount' = <<>> /\ phase' = <<>>
  /\ stats' = Bump("traces") /\ UNCHANGED viol

TLog ==
  /\ E.ev \in {"logdef", "logappend"}
  /\ logs' = Put(logs, E.part, Get(logs, E.part, <<>>) \o E.batches)
  /\ stats' = Tick /\ UNCHANGED <<cfg, startAt, deliv, icount, phase, viol>>

TStart ==
  /\ E.ev = "start"
  /\ startAt' = Put(startAt, E.part, E.resolved)
  /\ deliv' = Put(deliv, E.part, <<>>)
  /\ phase' = Put(phase, E.part, "open")
  /\ stats' = Tick /\ UNCHANGED <<cfg, logs, icount, viol>>

TDeliver ==
  /\ E.ev = "deliver"
  /\ LET p == E.part
         lg == Get(logs, p, <<>>)
         S == Get(startAt, p, 0)
         sofar == Get(deliv, p, <<>>)
         vis == VisibleSet(lg, S, cfg.iso)
         lastOff == IF sofar = <<>> THEN -1 ELSE sofar[Len(sofar)]
         \* the next visible offset the consumer owes the application
         pendingVis == {o \in vis : o > lastOff}
         dup == E.off \in ToSet(sofar)
     IN
     /\ deliv' = Put(deliv, p, Append(sofar, E.off))
     /\ viol' = viol
          \cup When(dup, "deliver_once")
          \cup When(~dup /\ E.off <= lastOff, "deliver_in_order")
          \cup When(E.off < S, "deliver_nothing_below_start")
          \cup When(E.off \in CtlOffs(lg), "control_never_delivered")
          \cup When(cfg.iso = "rc" /\ E.off \in AbortedOffs(lg), "no_aborted_delivered")
          \cup When(E.off \notin AllData(lg) /\ E.off \notin CtlOffs(lg), "deliver_unknown_offset")
          \cup When(E.off >= S /\ E.off > lastOff /\ E.off \in vis /\ \E o \in pendingVis : o < E.off, "no_skip")
          \cup When(E.off >= S /\ E.off \in AllData(lg) /\ E.off \notin vis /\ E.off \notin AbortedOffs(lg), "deliver_beyond_stable_offset")
          \cup When(~E.ok, "deliver_content_equals_log")
          \cup When(cfg.interceptors > 0 /\ \E c \in 1..cfg.interceptors : Get(icount, <<c, p, E.off>>, 0) = 0, "consumer_intercept_before_delivery")
          \cup When(Get(phase, p, "open") = "closed", "deliver_after_close")
  /\ stats' = Bump("delivered")
  /\ UNCHANGED <<cfg, logs, startAt, icount, phase>>

TIntercept ==
  /\ E.ev = "cintercept"
  /\ LET k == <<E.chain, E.part, E.off>>
         n == Get(icount, k, 0)
     IN
     /\ icount' = Put(icount, k, n + 1)
     /\ viol' = viol
          \cup When(n >= 1, "consumer_intercept_once")
          \cup When(E.chain > 1 /\ Get(icount, <<E.chain - 1, E.part, E.off>>, 0) = 0, "consumer_intercept_chain_order")
  /\ stats' = Tick /\ UNCHANGED <<cfg, logs, startAt, deliv, phase>>

\* end of a scenario for one partition: with expect_all the partition was reachable to the end
TFinPart ==
  /\ E.ev = "fin_part"
  /\ LET p == E.part
         lg == Get(logs, p, <<>>)
         vis == VisibleSet(lg, Get(startAt, p, 0), cfg.iso)
         got == ToSet(Get(deliv, p, <<>>))
     IN
     /\ viol' = viol
          \cup When(E.expect_all /\ \E o \in vis : o \notin got, "all_visible_delivered")
          \cup When(E.expect_all /\ cfg.iso = "rc" /\ \E o \in vis : o \notin got, "all_committed_and_plain_delivered")
     /\ stats' = IF E.expect_all THEN Bump("complete") ELSE Tick
  /\ UNCHANGED <<cfg, logs, startAt, deliv, icount, phase>>

TPhase ==
  /\ E.ev \in {"pc_close_call", "pc_close_ret", "msgs_closed", "errs_closed", "hang", "close_call", "close_ret", "fin", "consume_err"}
  /\ phase' = IF E.ev = "msgs_closed" THEN Put(phase, E.part, "closed")
              ELSE IF E.ev = "pc_close_call" /\ Get(phase, E.part, "open") # "closed" THEN Put(phase, E.part, "closing") ELSE phase
  /\ viol' = viol
       \cup When(E.ev = "hang", "close_returns")
       \cup When(E.ev = "fin" /\ \E p \in DOMAIN phase : phase[p] # "closed", "channels_closed")
  /\ stats' = Tick /\ UNCHANGED <<cfg, logs, startAt, deliv, icount>>

TOther ==
  /\ E.ev \in {"meta", "move", "fetch", "cerror", "stall", "stuck", "unsteered", "skip", "sim_error"}
  /\ stats' = CASE E.ev = "fetch" /\ E.kind = "ok" -> Bump("fetches")
                [] E.ev = "fetch" -> Bump("faults")
                [] E.ev = "cerror" -> Bump("errors")
                [] E.ev = "stall" -> Bump("stalls")
                [] E.ev = "unsteered" -> Bump("unsteered")
                [] E.ev = "skip" -> Bump("skipped")
                [] E.ev = "sim_error" -> Bump("simerr")
                [] OTHER -> Tick
  /\ UNCHANGED <<cfg, logs, startAt, deliv, icount, phase, viol>>

TPanic ==
  /\ E.ev \in {"panic", "bad_request"}
  /\ viol' = viol \cup (IF E.ev = "panic" THEN V("no_panic") ELSE V("wire_request_decodes"))
  /\ stats' = Tick
  /\ UNCHANGED <<cfg, logs, startAt, deliv, icount, phase>>

TEnd ==
  /\ E.ev = "end"
  /\ PrintT(<<"VIOL", ToJson(viol)>>)
  /\ PrintT(<<"STATS", ToJson(stats)>>)
  /\ UNCHANGED <<cfg, logs, startAt, deliv, icount, phase, viol, stats>>

Next == /\ l <= Len(Trace) /\ l' = l + 1
        /\ (TReset \/ TLog \/ TStart \/ TDeliver \/ TIntercept \/ TFinPart \/ TPhase \/ TOther \/ TPanic \/ TEnd)
Spec == Init /\ [][Next]_vars
Accepted == TLCGet("stats").diameter - 1 = Len(Trace)
=============================================================================
