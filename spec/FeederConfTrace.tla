--------------------------- MODULE FeederConfTrace ---------------------------
(* Soft conformance (implementation-shaped): the partition consumer's responseFeeder
   (consumer.go) as spec/Consumer.tla models it (FeederParse, FeedOne, Tick, FeedRemaining,
   Resub, the final acks.Done), validated against the hook events recorded from the real code:
     pc_parsed{part, n, err}   a response was parsed into n messages
     pc_sent{part, off}        a message was handed to the application
     pc_tick{part, first}      the expiry ticker fired; first = the feeder's firstAttempt flag
     pc_resub{part}            slow path finished, the partition re-subscribes
     pc_done{part}             the response was fed completely (normal acks.Done)
   State per partition: pc in {idle, feeding, slow}, remaining messages, the firstAttempt flag.
   A mismatch is DRIFT (the code changed shape); it never decides a property by itself.     *)
EXTENDS Naturals, Integers, Sequences, FiniteSets, TLC, Json

Trace == ndJsonDeserialize("trace.ndjson")
VARIABLES l, st, drift, stats
vars == <<l, st, drift, stats>>
E == Trace[l]
Get(f, k, d) == IF k \in DOMAIN f THEN f[k] ELSE d
Put(f, k, v) == [x \in DOMAIN f \cup {k} |-> IF x = k THEN v ELSE f[x]]
P0 == [pc |-> "idle", rem |-> 0, first |-> TRUE, lastOff |-> -1]
D(c) == {<<E.t, E.i, c>>}

Init == l = 1 /\ st = <<>> /\ drift = {} /\
        stats = [traces |-> 0, parsed |-> 0, sent |-> 0, ticks |-> 0, slow |-> 0, resub |-> 0, done |-> 0]

TReset == E.ev = "reset" /\ st' = <<>> /\ stats' = [stats EXCEPT !.traces = @ + 1] /\ UNCHANGED drift

TParsed ==
  /\ E.ev = "pc_parsed"
  /\ LET p == Get(st, E.part, P0) IN
     /\ UNCHANGED drift      \* (a feeder interrupted by AsyncClose leaves its response unfinished: not a drift)
     /\ st' = Put(st, E.part, [p EXCEPT !.pc = "feeding", !.rem = E.n])
  /\ stats' = [stats EXCEPT !.parsed = @ + 1]

TSent ==
  /\ E.ev = "pc_sent"
  /\ LET p == Get(st, E.part, P0) IN
     /\ drift' = drift \cup (IF p.pc = "idle" \/ p.rem = 0 THEN D("sent_without_pending_message") ELSE {})
                       \cup (IF E.off <= p.lastOff THEN D("sent_offset_not_increasing") ELSE {})
     /\ st' = Put(st, E.part, [p EXCEPT !.rem = IF @ > 0 THEN @ - 1 ELSE 0, !.lastOff = E.off,
                                        !.first = IF p.pc = "feeding" THEN TRUE ELSE @])
  /\ stats' = [stats EXCEPT !.sent = @ + 1]

TTick ==
  /\ E.ev = "pc_tick"
  /\ LET p == Get(st, E.part, P0) IN
     /\ drift' = drift \cup (IF p.pc # "feeding" \/ p.rem = 0 THEN D("tick_outside_feeding") ELSE {})
                       \cup (IF p.first # E.first THEN D("first_attempt_flag_differs_from_model") ELSE {})
     /\ st' = Put(st, E.part, IF E.first THEN [p EXCEPT !.first = FALSE] ELSE [p EXCEPT !.pc = "slow"])
  /\ stats' = [stats EXCEPT !.ticks = @ + 1, !.slow = IF E.first THEN @ ELSE @ + 1]

TResub ==
  /\ E.ev = "pc_resub"
  /\ LET p == Get(st, E.part, P0) IN
     /\ drift' = drift \cup (IF p.pc # "slow" THEN D("resubscribe_outside_slow_path") ELSE {})
     /\ st' = Put(st, E.part, [p EXCEPT !.pc = "idle", !.rem = 0])   \* firstAttempt stays FALSE, as in the code
  /\ stats' = [stats EXCEPT !.resub = @ + 1]

TDone ==
  /\ E.ev = "pc_done"
  /\ LET p == Get(st, E.part, P0) IN
     /\ drift' = drift \cup (IF p.pc # "feeding" \/ p.rem # 0 THEN D("done_with_pending_messages") ELSE {})
     /\ st' = Put(st, E.part, [p EXCEPT !.pc = "idle", !.rem = 0])
  /\ stats' = [stats EXCEPT !.done = @ + 1]

TEnd == E.ev = "end" /\ PrintT(<<"DRIFT", ToJson(drift)>>) /\ PrintT(<<"STATS", ToJson(stats)>>) /\ UNCHANGED <<st, drift, stats>>

Next == /\ l <= Len(Trace) /\ l' = l + 1 /\ (TReset \/ TParsed \/ TSent \/ TTick \/ TResub \/ TDone \/ TEnd)
Spec == Init /\ [][Next]_vars
Accepted == TLCGet("stats").diameter - 1 = Len(Trace)
=============================================================================
