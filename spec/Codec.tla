------------------------------- MODULE Codec -------------------------------
(* C09 part 1: sarama's primitive codec as a state machine.

   A run builds a program (tape of packetEncoder calls) op by op while the SIZING pass
   (prepEncoder) runs along; when all pushes are popped the program may be sealed: the buffer is
   allocated with the computed length, the WRITING pass (realEncoder) runs over the same program
   using the lengths the push fields kept from the sizing pass, then the READING pass (realDecoder)
   reads the bytes back following the program. The three passes are the step functions of
   CodecWire (one step per packetEncoder / packetDecoder call, modelled as the code is:
   encode() in encoder_decoder.go, push/pop with lengthField / varintLengthField.adjustLength /
   crc32Field). With Atomic = FALSE every call of the two later passes is one TLC step; with
   Atomic = TRUE a sealed program runs both passes in one step (same step functions, folded).

   TLC explores every program up to MaxLen over the alphabet and checks the clauses of C09 as
   invariants; every sealed program is emitted as a CASE for the replay on the real code.       *)
EXTENDS CodecWire, TLC, Json

CONSTANTS MaxLen,      \* longest program
          MaxDepth,    \* deepest push nesting
          MaxPlain,    \* at most this many non-push/pop ops in a program
          Alphabet,    \* "core" | "wide" | "mini" | "nest"
          Atomic,      \* TRUE: writing + reading pass of a sealed program in one step
          EmitMode     \* "all" | "push" (only programs with a push) | "none"

(* ---------------------------------------------------------------- alphabets (Wide, Core, Nest: see CodecWire) *)
PlainOps == CASE Alphabet = "wide" -> Wide [] Alphabet = "core" -> Core [] Alphabet = "mini" -> Mini [] OTHER -> Nest
PushOps == {Ln("push_len", 0), Ln("push_varlen", 0), Ln("push_varlen", 100), Ln("push_crc_ieee", 0), Ln("push_crc_cast", 0)}
PopOp == Ln("pop", 0)

(* ---------------------------------------------------------------- the machine *)
VARIABLES phase,   \* "build" | "real" | "dec" | "done" | "encerr"
          prog,    \* the program so far
          p,       \* sizing pass state (PrepStep)
          plens,   \* sizing pass: length after every step
          r,       \* writing pass state (RealStep)
          roffs,   \* writing pass: offset after every step
          d,       \* reading pass state (DecStep)
          tape,    \* reading pass: decoded cell of every step
          pc       \* next op of the running pass
vars == <<phase, prog, p, plens, r, roffs, d, tape, pc>>

Depth == Len(p.stack)
NPlain == Cardinality({i \in 1..Len(prog) : ~IsPush(prog[i]) /\ ~IsPop(prog[i])})
HasPush(ops) == \E i \in 1..Len(ops) : IsPush(ops[i])

Init == /\ phase = "build" /\ prog = <<>> /\ p = PrepInit /\ plens = <<>>
        /\ r = RealInit(0) /\ roffs = <<>> /\ d = DecInit /\ tape = <<>> /\ pc = 0

Extend(op) == /\ prog' = Append(prog, op)
              /\ p' = PrepStep(p, op)
              /\ plens' = Append(plens, p'.len)
              /\ UNCHANGED <<phase, r, roffs, d, tape, pc>>

Plain(op) == /\ phase = "build" /\ ~p.err
             /\ Len(prog) + 1 + Depth <= MaxLen /\ NPlain < MaxPlain
             /\ Extend(op)
Push(op) == /\ phase = "build" /\ ~p.err
            /\ Depth < MaxDepth /\ Len(prog) + 2 + Depth <= MaxLen
            /\ Extend(op)
Pop == /\ phase = "build" /\ ~p.err /\ Depth > 0
       /\ Extend(PopOp)

\* encode(): sizing pass done, allocate, run the writing pass; then decode() the result
Seal == /\ phase = "build" /\ (Depth = 0 \/ p.err) /\ Len(prog) > 0
        /\ IF p.err THEN /\ phase' = "encerr" /\ UNCHANGED <<r, roffs, d, tape, pc>>
           ELSE IF Atomic THEN
              LET rr == RealRun(RealInit(p.len), prog, p.lens, 1, <<>>, <<>>)
                  dd == DecRun(DecInit, prog, rr.r.raw, rr.r.crcs, 1, <<>>, <<>>) IN
              /\ phase' = "done" /\ r' = rr.r /\ roffs' = rr.offs /\ d' = dd.d /\ tape' = dd.tape /\ pc' = 0
           ELSE /\ phase' = "real" /\ r' = RealInit(p.len) /\ pc' = 1 /\ UNCHANGED <<roffs, d, tape>>
        /\ UNCHANGED <<prog, p, plens>>

RealAct == /\ phase = "real"
           /\ IF pc > Len(prog) THEN /\ phase' = "dec" /\ pc' = 1 /\ UNCHANGED <<r, roffs>>
              ELSE /\ r' = RealStep(r, prog[pc], p.lens) /\ roffs' = Append(roffs, r'.off)
                   /\ pc' = pc + 1 /\ UNCHANGED phase
           /\ UNCHANGED <<prog, p, plens, d, tape>>

DecAct == /\ phase = "dec"
          /\ IF pc > Len(prog) THEN /\ phase' = "done" /\ pc' = 0 /\ UNCHANGED <<d, tape>>
             ELSE LET q == DecStep(d, prog[pc], r.raw, r.crcs) IN
                  /\ d' = q.d /\ tape' = Append(tape, q.cell) /\ pc' = pc + 1 /\ UNCHANGED phase
          /\ UNCHANGED <<prog, p, plens, r, roffs>>

Next == \/ \E op \in PlainOps : Plain(op)
        \/ \E op \in PushOps : Push(op)
        \/ Pop \/ Seal \/ RealAct \/ DecAct
Spec == Init /\ [][Next]_vars

(* ---------------------------------------------------------------- the prescription, denotationally *)
\* MatchPop and Ref (the bytes the protocol prescribes for a program) are defined in CodecWire

(* ---------------------------------------------------------------- invariants: the clauses of C09 *)
TypeOK == /\ phase \in {"build", "real", "dec", "done", "encerr"}
          /\ Len(plens) = Len(prog) /\ Len(p.lens) = Len(prog)
          /\ Len(prog) <= MaxLen /\ Depth <= MaxDepth

\* the sizing pass keeps a well-nested stack whose fields start inside the sized region
PrepStackOK == \A i \in 1..Len(p.stack) :
                  /\ p.stack[i].start <= p.len
                  /\ (i > 1 => p.stack[i - 1].start < p.stack[i].start)

\* the writing pass never leaves the buffer the sizing pass allocated
RealInBuffer == phase \in {"real", "dec", "done"} => (~r.panic /\ r.off <= Len(r.raw))
DecInBuffer == phase \in {"dec", "done"} => d.off <= Len(r.raw)

Done == phase = "done"
StartOf(offs, j) == IF j = 1 THEN 0 ELSE offs[j - 1]
\* sizing pass and writing pass agree: at the end, whenever no push is open, and on the extent of every popped field
AgreeAtEnd == Done => (p.len = r.off /\ r.off = Len(r.raw) /\ r.stack = <<>>)
AgreeAtDepth0 == Done => \A i \in 1..Len(prog) : (DepthsOf(prog)[i] = 0) => plens[i] = roffs[i]
AgreeAtPop == Done => \A i \in 1..Len(prog) : IsPop(prog[i]) =>
                 LET j == PushOf(prog, i) IN plens[i] - StartOf(plens, j) = roffs[i] - StartOf(roffs, j)

\* the bytes written are the prescribed ones, every CRC covers exactly the bytes between field and pop
Prescribed == Done =>
  /\ r.raw = Ref(prog, 1, Len(prog))
  /\ \A i \in 1..Len(prog) : (prog[i].k \in {"push_crc_ieee", "push_crc_cast"}) =>
        LET c == r.crcs[i] IN
        /\ c.poly = Poly(prog[i].k)
        /\ SubSeq(r.raw, c.from + 1, c.to) = Ref(prog, i + 1, MatchPop(prog, i) - 1)
        /\ c.from = StartOf(roffs, i) + 4

\* Decode(Encode(tape)) = tape, all bytes consumed, every push popped
RoundTrip == Done =>
  IF InDomain(prog, roffs, Len(r.raw))
  THEN /\ d.err = "" /\ d.off = Len(r.raw) /\ d.stack = <<>>
       /\ \A i \in 1..Len(prog) : tape[i] = Norm(prog[i])
  ELSE d.err = "insufficient"

\* an encode error is exactly a nil non-nullable compact array
EncErrOnlyNil == (phase = "encerr") <=> (phase # "build" /\ \E i \in 1..Len(prog) : EncErr(prog[i]))

Emit == ((phase \in {"done", "encerr"}) /\ (EmitMode = "all" \/ (EmitMode = "push" /\ HasPush(prog)))) =>
           PrintT(<<"CASE", ToJson([ops |-> prog])>>)
=============================================================================
