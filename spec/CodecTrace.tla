----------------------------- MODULE CodecTrace -----------------------------
(* Role 3 for C09: total observer over what the REAL sarama codec did.

   "prog" events (harness/inpkg/codec_prog_test.go): one program emitted by TLC from Codec.tla,
   executed on the real prepEncoder / realEncoder / realDecoder through encode() / decode().
   Every recorded step is compared with the step functions and the prescription of CodecWire.

   "body" events (harness/inpkg/codec_body_test.go): one protocol body x version x filled value
   (or record batch / message set), with the primitive tapes of the sizing pass, the writing
   pass, the decode and the re-encode recorded by tape wrappers around packetEncoder /
   packetDecoder.

   Never blocks; accumulates <<trace, index, clause>> in viol and prints it at the end.      *)
EXTENDS CodecWire, TLC, Json

Trace == ndJsonDeserialize("trace.ndjson")

VARIABLES l, viol, nprog, nbody
vars == <<l, viol, nprog, nbody>>

E == Trace[l]
V(c) == {<<E.t, E.i, c>>}
When(cond, c) == IF cond THEN V(c) ELSE {}
Last(s) == s[Len(s)]
StartOf(offs, j) == IF j = 1 THEN 0 ELSE offs[j - 1]
Insufficient == "insufficient"   \* (the harness names ErrInsufficientData by identity, not by its wording)

(* ---------------------------------------------------------------- part 1: programs *)
ProgClauses ==
  LET ops == E.ops
      n == Len(ops)
      pr == PrepRun(PrepInit, ops, 1, <<>>)
  IN
  IF pr.p.err THEN When(E.eerr = "" \/ E.epanic, "encode_outcome")                   \* nil non-nullable array must be refused
  ELSE IF E.eerr # "" THEN V("encode_outcome")   \* e.g. the writing pass ran out of the buffer the sizing pass allocated
                           \cup When(Len(E.prep) = n /\ \E i \in 1..n : E.prep[i] # pr.plens[i], "sizing_pass_length")
  ELSE IF Len(E.prep) # n \/ Len(E.real) # n \/ Len(E.wr) # n \/ Len(E.crc) # n THEN V("encode_outcome")
  ELSE
   LET rr == RealRun(RealInit(pr.p.len), ops, pr.p.lens, 1, <<>>, <<>>)
       dp == DepthsOf(ops)
       ref == Ref(ops, 1, n)
       raw == E.raw
       dom == InDomain(ops, rr.offs, Len(ref))
       \* the byte the real code must have at position x: prescribed byte, or the independent CRC of the prescribed extent
       Want(x) == IF IsCrcCell(ref[x])
                  THEN LET site == CrcSite(ref[x])
                           row == E.crc[MatchPop(ops, site)] IN
                       IF Len(row) = 6 THEN row[2 + (ref[x] - CrcCell(site, 1)) + 1] ELSE -1
                  ELSE ref[x]
   IN
   \* the sizing pass computes the prescribed size after every call
   When(\E i \in 1..n : E.prep[i] # pr.plens[i], "sizing_pass_length")
   \* the writing pass is where the prescription puts it after every call
   \cup When(\E i \in 1..n : E.real[i] # rr.offs[i], "writing_pass_offset")
   \* the two passes agree (judged on the recorded numbers only): at the end, with no push open, per popped field
   \cup When(\/ E.prep[n] # E.real[n] \/ Len(raw) # E.real[n]
             \/ \E i \in 1..n : dp[i] = 0 /\ E.prep[i] # E.real[i]
             \/ \E i \in 1..n : IsPop(ops[i]) /\
                   LET j == PushOf(ops, i) IN E.prep[i] - StartOf(E.prep, j) # E.real[i] - StartOf(E.real, j),
             "passes_agree")
   \* every primitive writes the prescribed bytes; every length field holds the prescribed number
   \cup When(\E i \in 1..n : ~IsPush(ops[i]) /\ ~IsPop(ops[i]) /\ E.wr[i] # Enc(ops[i]), "prescribed_bytes")
   \cup When(\E i \in 1..n : IsPop(ops[i]) /\ ops[PushOf(ops, i)].k \in {"push_len", "push_varlen"}
                             /\ E.wr[i] # rr.wrs[i], "length_field")
   \* a CRC field covers exactly the bytes between the field and its pop, with the polynomial asked for
   \cup When(\E i \in 1..n : IsPop(ops[i]) /\ ops[PushOf(ops, i)].k \in {"push_crc_ieee", "push_crc_cast"} /\
                LET c == rr.r.crcs[PushOf(ops, i)] IN
                \/ Len(E.crc[i]) # 6
                \/ E.crc[i][1] # c.from \/ E.crc[i][2] # c.to
                \/ E.wr[i] # SubSeq(E.crc[i], 3, 6),
             "crc_field")
   \* the whole buffer is the prescribed one
   \cup When(Len(raw) # Len(ref) \/ \E x \in 1..Len(ref) : x <= Len(raw) /\ raw[x] # Want(x), "encoded_bytes")
   \* Decode(Encode(tape)) = tape, consuming exactly the buffer, cursor in step with the writer
   \cup (IF dom
         THEN When(\/ E.derr # "" \/ Len(E.dec) # n \/ E.dend # Len(raw)
                   \/ \E i \in 1..n : i <= Len(E.dec) /\
                         \/ E.dec[i].err # ""
                         \/ [n |-> E.dec[i].n, v |-> E.dec[i].v, b |-> E.dec[i].b] # Norm(ops[i]),
                   "decode_roundtrip")
              \cup When(\E i \in 1..n : i <= Len(E.dec) /\ E.dec[i].off # rr.offs[i], "decode_cursor")
         ELSE When(E.derr # Insufficient, "decode_roundtrip"))

(* ---------------------------------------------------------------- part 2: bodies *)
\* one push field of the writing pass: <<kind, start, end, width, field bytes..., independent CRC bytes...>>
FieldOK(row) ==
  LET kind == row[1]
      start == row[2]
      end == row[3]
      w == row[4] IN
  CASE kind = 1 -> w = 4 /\ Len(row) = 8 /\ SubSeq(row, 5, 8) = BE(I(end - start - 4), 4)           \* INT32 length of what follows
    [] kind = 2 -> Len(row) = 4 + w /\ SubSeq(row, 5, 4 + w) = Var(I(end - start - w))            \* zig-zag varint length, own size excluded
    [] kind \in {3, 4} -> w = 4 /\ Len(row) = 12 /\ SubSeq(row, 5, 8) = SubSeq(row, 9, 12)        \* CRC of the bytes between field and pop
    [] OTHER -> FALSE

BodyClauses ==
  IF E.eerr # "" THEN V("body_passes_agree")          \* the sizing pass accepted the value, the writing pass failed or panicked
  ELSE
   LET dok == E.derr = ""
       rok == dok /\ E.rerr = "" IN
   \* the two passes make the same calls (kind, width), reach the same total and the same extent for every push
   When(E.preplen # E.reallen \/ E.reallen # E.buflen \/ E.prepext # E.realext \/ E.tprepkw # E.trealkw, "body_passes_agree")
   \* length prefixes, varint lengths and checksums are the prescribed function of the bytes they cover
   \cup When(\E i \in 1..Len(E.fields) : ~FieldOK(E.fields[i]), "body_push_fields")
   \* decode succeeds and consumes exactly the buffer
   \cup When(~dok \/ E.dend # E.buflen, "body_decode_consumes")
   \* the decoded value knows its version
   \cup When(dok /\ E.decver # E.ver, "body_version_recorded")
   \* every field the encoder carries in this version (changing it alone changes the bytes) comes back with its value
   \cup When(dok /\ E.fcar # E.fdec, "body_fields_preserved")
   \* every primitive cell written is read back as a cell of the same kind, width and bytes (multisets)
   \cup When(dok /\ E.tdec # E.treal, "body_decode_tape")
   \* the decoded value re-encodes to the same length, the same cells, and (no Go map iterated) the same bytes
   \cup When(dok /\ (E.rerr # "" \/ E.relen # E.buflen), "body_reencode_length")
   \cup When(rok /\ E.treenc # E.treal, "body_reencode_tape")
   \cup When(rok /\ ~E.hasmap /\ E.redigest # E.digest, "body_reencode_bytes")
   \* ... and decodes to the same value again
   \cup When(rok /\ (E.d2err # "" \/ E.tdec2 # E.tdec \/ E.d2end # E.relen), "body_second_decode")

Init == l = 1 /\ viol = {} /\ nprog = 0 /\ nbody = 0

TProg == /\ E.ev = "prog"
         /\ viol' = viol \cup ProgClauses
         /\ nprog' = nprog + 1 /\ UNCHANGED nbody
TBody == /\ E.ev = "body"
         /\ viol' = viol \cup BodyClauses
         /\ nbody' = nbody + 1 /\ UNCHANGED nprog
TReset == /\ E.ev = "reset" /\ UNCHANGED <<viol, nprog, nbody>>
TEnd == /\ E.ev = "end"
        /\ PrintT(<<"VIOL", ToJson(viol)>>)
        /\ PrintT(<<"STATS", ToJson([progs |-> nprog, bodies |-> nbody])>>)
        /\ UNCHANGED <<viol, nprog, nbody>>

Next == /\ l <= Len(Trace)
        /\ l' = l + 1
        /\ (TProg \/ TBody \/ TReset \/ TEnd)
Spec == Init /\ [][Next]_vars
Accepted == TLCGet("stats").diameter - 1 = Len(Trace)
=============================================================================
