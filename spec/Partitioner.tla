------------------------------ MODULE Partitioner ------------------------------
(* One partitioner instance of partitioner.go as a state machine (C17, first family).

   Init picks a constructor and its options; every step is one call
   Partition(message, numPartitions) on that instance.  Instance state as in the code:
   the round-robin cursor (roundRobinPartitioner.partition), the content of the
   hasher since its last Reset (hashPartitioner.hasher), and - for the pinned tree's
   WithCustomFallbackPartitioner, which assigns hp.random = hp - whether the instance
   has died in unbounded recursion.  hist records the calls together with the result the
   model computes; the property's clauses are invariants over hist.  The behaviours of
   this machine are emitted as JSON cases and replayed on the real constructors
   (harness/inpkg/partitioner_test.go); spec/PartitionerTrace.tla judges what the code did. *)
EXTENDS PartitionerOps, TLC, Json

CONSTANTS
  Ctors,         \* constructors explored: subset of {"manual","random","roundrobin","hash","refhash","customhash","custom"}
  Ns,            \* partition counts
  HMode,         \* "full": HFull(n) and the whole FNV table; "small": HSeq(n) and two FNV keys
  MaxCalls,      \* calls per behaviour
  FallbackAsIs,  \* TRUE: WithCustomFallbackPartitioner as on the pinned tree (hp.random = hp)
  EmptyKeyIsKey, \* TRUE (the code): MessageRequiresConsistency is Key != nil; FALSE: a variant that also wants bytes in the key
  CursorInits,   \* round-robin: cursor values a behaviour may start from. 0 = fresh instance; other values stand for
                 \* the state after that many earlier calls (near MaxInt: after ~2^31 messages) or after calls with a
                 \* larger partition count (n-1, n, n+1 of the count used now)
  ConstN,        \* TRUE: one partition count for the whole behaviour
  RRModulo,      \* FALSE (the code): wrap by reset; TRUE: a variant "ret = cursor % n; cursor++" whose int32 cursor overflows
  Randomized,    \* TRUE (simulation only): every step draws ONE call at random instead of branching over all
  EmitCases

ASSUME Ns \subseteq 1..16

VARIABLES cfg, cursor, cursor0, hbuf, dead, hist
vars == <<cfg, cursor, cursor0, hbuf, dead, hist>>

Flags(c, a, hf, fb) == [ctor |-> c, abs |-> a, hashfn |-> hf, fb |-> fb]
Configs ==
  {Flags(c, FALSE, FALSE, FALSE) : c \in Ctors \cap {"manual", "random", "roundrobin", "hash"}}
  \cup (IF "refhash" \in Ctors THEN {Flags("refhash", TRUE, FALSE, FALSE)} ELSE {})
  \cup (IF "customhash" \in Ctors THEN {Flags("customhash", FALSE, TRUE, FALSE)} ELSE {})
  \cup (IF "custom" \in Ctors THEN {Flags("custom", a, hf, fb) : a \in BOOLEAN, hf \in BOOLEAN, fb \in BOOLEAN} ELSE {})

IsHash(c) == c.ctor \in {"hash", "refhash", "customhash", "custom"}

(* ---------- messages ---------- *)
Key(k, h, name) == [k |-> k, h |-> h, name |-> name]
NilKey == Key("nil", 0, "")
Range1(s) == {s[i] : i \in DOMAIN s}
FnvKeys == IF HMode = "full" THEN Range1(FnvTable) ELSE {FnvTable[1], FnvTable[2]}
Hs(n) == IF HMode = "full" THEN HFull(n) ELSE HSeq(n)

\* keys a message may carry for configuration c and partition count n
Keys(c, n) ==
  IF ~IsHash(c) THEN {NilKey, Key("h", 1, "")}
  ELSE IF c.hashfn
       THEN {NilKey} \cup {Key(e, FakeEmpty, "") : e \in EmptyKinds} \cup {Key("h", h, "") : h \in Hs(n)}
       ELSE {NilKey} \cup {Key(e, FnvEmpty, "") : e \in EmptyKinds} \cup {Key("fnv", e.h, e.name) : e \in FnvKeys}
\* ProducerMessage.Partition, only read by the manual partitioner
Parts(c, n) == IF c.ctor = "manual" THEN {-1, 0, n - 1, n} ELSE {0}
Msg(key, part) == [key |-> key, part |-> part]
Msgs(c, n) ==
  CASE c.ctor = "roundrobin" -> {Msg(NilKey, 0)}
    [] c.ctor = "manual"     -> {Msg(NilKey, p) : p \in Parts(c, n)}
    [] OTHER                 -> {Msg(k, 0) : k \in Keys(c, n)}

(* ---------- results ---------- *)
Exact(v) == [k |-> "exact", v |-> v]
InRangeOnly == [k |-> "range", v |-> 0]      \* any index in 0..n-1 (random choice)
Crash == [k |-> "crash", v |-> 0]

\* if p.partition >= numPartitions { p.partition = 0 }; ret := p.partition; p.partition++
RRRet(n) == IF RRModulo THEN TruncRem(cursor, n) ELSE IF cursor >= n THEN 0 ELSE cursor
RRNext(n) == IF RRModulo THEN (IF cursor = MaxInt THEN MinInt ELSE cursor + 1)      \* int32 increment wraps
             ELSE RRRet(n) + 1
HashRes(h, n) == IF cfg.abs THEN Ref(h, n) ELSE Legacy(h, n)
Res(m, n) ==
  CASE cfg.ctor = "manual"     -> Exact(m.part)
    [] cfg.ctor = "random"     -> InRangeOnly
    [] cfg.ctor = "roundrobin" -> Exact(RRRet(n))
    [] OTHER ->
         IF m.key.k = "nil"
         THEN (IF cfg.fb /\ FallbackAsIs THEN Crash ELSE InRangeOnly)   \* p.random.Partition(...)
         ELSE Exact(HashRes(m.key.h, n))

\* RequiresConsistency() / MessageRequiresConsistency(m): what the instance tells the producer about m.
\* The hash partitioners are DynamicConsistencyPartitioners: consistency exactly for the messages they hash.
Req(m) ==
  CASE cfg.ctor = "manual" -> TRUE
    [] cfg.ctor \in {"random", "roundrobin"} -> FALSE
    [] OTHER -> m.key.k # "nil" /\ (EmptyKeyIsKey \/ m.key.k \notin EmptyKinds)

Init ==
  /\ cfg \in Configs
  /\ cursor \in (IF cfg.ctor = "roundrobin" THEN CursorInits ELSE {0})
  /\ cursor0 = cursor
  /\ hbuf = <<>>
  /\ dead = FALSE
  /\ hist = <<>>

Call(m, n) ==
  /\ hist' = Append(hist, [msg |-> m, n |-> n, exp |-> Res(m, n), req |-> Req(m)])
  /\ cursor' = IF cfg.ctor = "roundrobin" THEN RRNext(n) ELSE cursor
  \* p.hasher.Reset(); p.hasher.Write(bytes): the hasher holds exactly this key afterwards
  /\ hbuf' = IF IsHash(cfg) /\ m.key.k # "nil" THEN <<m.key.h>> ELSE hbuf
  /\ dead' = (Res(m, n) = Crash)
  /\ UNCHANGED <<cfg, cursor0>>

Next ==
  /\ Len(hist) < MaxCalls
  /\ ~dead
  /\ IF Randomized
     THEN \E n \in {RandomElement(Ns)} : \E m \in {RandomElement(Msgs(cfg, n))} : Call(m, n)
     ELSE \E n \in (IF ConstN /\ hist # <<>> THEN {hist[1].n} ELSE Ns) : \E m \in Msgs(cfg, n) : Call(m, n)

Spec == Init /\ [][Next]_vars

(* ---------- the clauses of C17 (first family) as invariants ---------- *)
Keyed(e) == IsHash(cfg) /\ e.msg.key.k # "nil"
\* every built-in partitioner returns an index in [0, numPartitions)
InRange ==
  \A i \in DOMAIN hist : LET e == hist[i] IN
     /\ e.exp.k # "crash"
     /\ (e.exp.k = "exact" /\ (cfg.ctor # "manual" \/ e.msg.part \in 0 .. (e.n - 1))) => e.exp.v \in 0 .. (e.n - 1)
NoCrash == \A i \in DOMAIN hist : hist[i].exp.k # "crash"
\* equal keys => equal partitions (same instance, same partition count)
EqualKeys ==
  \A i, j \in DOMAIN hist :
     (Keyed(hist[i]) /\ hist[i].msg.key = hist[j].msg.key /\ hist[i].n = hist[j].n) => hist[i].exp = hist[j].exp
\* the reference variant computes exactly what Kafka's Java client computes for the same hash
RefIsJava ==
  \A i \in DOMAIN hist : LET e == hist[i] IN
     (Keyed(e) /\ cfg.abs) => e.exp = Exact(JavaPartition(e.msg.key.h, e.n))
\* the legacy variant is |hash| mod n (abs of the truncated remainder), also for MinInt
LegacyIsAbsMod ==
  \A i \in DOMAIN hist : LET e == hist[i] IN
     (Keyed(e) /\ ~cfg.abs) => e.exp = Exact(AbsMod(e.msg.key.h, e.n))
\* a message whose key the partitioner hashes (any non-nil key, also one without bytes) requires consistency:
\* otherwise the producer would take the hash modulo the writable partitions only
HashedRequiresConsistency == \A i \in DOMAIN hist : Keyed(hist[i]) => hist[i].req
ManualOwn ==
  \A i \in DOMAIN hist : cfg.ctor = "manual" => hist[i].exp = Exact(hist[i].msg.part)
\* round-robin: any numPartitions consecutive calls with that same count visit every partition
RoundRobinCycles ==
  cfg.ctor = "roundrobin" =>
    \A i \in DOMAIN hist : LET k == hist[i].n IN
       (i >= k /\ \A j \in (i - k + 1) .. i : hist[j].n = k)
          => {hist[j].exp.v : j \in (i - k + 1) .. i} = 0 .. (k - 1)
HasherHoldsOneKey == Len(hbuf) <= 1
TypeOK == (cursor \in 0 .. 17 \/ cursor = cursor0) /\ dead \in BOOLEAN

(* ---------- role 2: emit every maximal behaviour as one JSON case ---------- *)
KeyJson(k) == [k |-> k.k, h |-> k.h, name |-> k.name]
CallJson(e) == [key |-> KeyJson(e.msg.key), part |-> e.msg.part, n |-> e.n, xk |-> e.exp.k, xv |-> e.exp.v, xreq |-> e.req]
Emit ==
  (EmitCases /\ Len(hist) = MaxCalls) =>
     PrintT(<<"CASE", ToJson([fam |-> "part", cfg |-> cfg, cursor0 |-> cursor0, calls |-> [i \in 1 .. Len(hist) |-> CallJson(hist[i])]])>>)
=============================================================================
