---------------------------- MODULE MetadataView ----------------------------
(* C15 - declarative reference for the client's metadata answers: the view a client must
   present is a FOLD of the metadata responses it was served (newest wins per topic, a
   full response replaces everything, error classes decide keep/forget), and every read
   API is a function of that fold. Pure operators, shared by the state machine
   (Metadata.tla) and by the trace observer (MetadataTrace.tla).

   A response is a record
     [full |-> BOOLEAN, ctrl |-> Int, brokers |-> Seq(<<id, addr>>),
      topics |-> Seq(<<name, terr, Seq(<<pid, perr, leader, replicas, isr, offline>>)>>)]
   terr \in {"none","lna","unknown","invalid","auth","other"}, perr \in {"none","lna","rna"}.
   A reference state is [brokers |-> set of <<id,addr>>, ctrl |-> Int, meta |-> function
   topic name -> partition sequence as served].                                          *)
EXTENDS Integers, Sequences, FiniteSets

Range(s) == {s[k] : k \in DOMAIN s}

EmptyMeta == [x \in {} |-> <<>>]
RefInit == [brokers |-> {}, ctrl |-> -1, meta |-> EmptyMeta]

\* error classes of a topic-level error (client.go updateMetadata)
StoreClass(terr) == terr \in {"none", "lna"}          \* store (lna: store partial and retry)
RetryClass(terr) == terr \in {"lna", "unknown"}
ReportClass(terr) == terr \in {"unknown", "invalid", "auth", "other"}

RespNames(resp) == {e[1] : e \in Range(resp.topics)}
RespStored(resp) == {e[1] : e \in {x \in Range(resp.topics) : StoreClass(x[2])}}
RespParts(resp, n) == (CHOOSE e \in Range(resp.topics) : e[1] = n)[3]

\* the fold: what the newest responses say
Fold(ref, resp) ==
  LET base == IF resp.full THEN {} ELSE DOMAIN ref.meta
      keep == base \ RespNames(resp)
      st == RespStored(resp)
  IN [brokers |-> Range(resp.brokers),
      ctrl |-> resp.ctrl,
      meta |-> [n \in keep \cup st |-> IF n \in st THEN RespParts(resp, n) ELSE ref.meta[n]]]

RECURSIVE FoldAll(_, _)
FoldAll(ref, resps) == IF resps = <<>> THEN ref ELSE FoldAll(Fold(ref, Head(resps)), Tail(resps))

\* ------------------------------------------------------------------ views
RECURSIVE SortInts(_)
SortInts(S) == IF S = {} THEN <<>>
              ELSE LET m == CHOOSE x \in S : \A y \in S : x <= y IN <<m>> \o SortInts(S \ {m})

HasTopic(ref, t) == t \in DOMAIN ref.meta
PartsOf(ref, t) == IF HasTopic(ref, t) THEN Range(ref.meta[t]) ELSE {}
HasPart(ref, t, p) == \E e \in PartsOf(ref, t) : e[1] = p
Part(ref, t, p) == CHOOSE e \in PartsOf(ref, t) : e[1] = p
BrokerIds(ref) == {b[1] : b \in ref.brokers}
BrokerOf(ref, id) == CHOOSE b \in ref.brokers : b[1] = id

\* an expected answer: ok = a value is returned; val; err = "" | "rna" | "lna" | "any" (some error)
Ans(ok, val, err) == [ok |-> ok, val |-> val, err |-> err]
Fail == Ans(FALSE, <<>>, "any")

VTopics(ref) == DOMAIN ref.meta
VPartitions(ref, t) ==
  LET ids == {e[1] : e \in PartsOf(ref, t)} IN
  IF ids = {} THEN Fail ELSE Ans(TRUE, SortInts(ids), "")
VWritable(ref, t) ==
  IF ~HasTopic(ref, t) THEN Fail
  ELSE Ans(TRUE, SortInts({e[1] : e \in {x \in PartsOf(ref, t) : x[2] # "lna"}}), "")
VLeader(ref, t, p) ==
  IF ~HasPart(ref, t, p) THEN Fail
  ELSE LET e == Part(ref, t, p) IN
       IF e[2] = "lna" \/ e[3] \notin BrokerIds(ref) THEN Ans(FALSE, <<>>, "lna")
       ELSE Ans(TRUE, BrokerOf(ref, e[3]), "")
VRepl(ref, t, p, k) ==       \* k = 4 replicas, 5 isr, 6 offline
  IF ~HasPart(ref, t, p) THEN Fail
  ELSE LET e == Part(ref, t, p) IN Ans(TRUE, e[k], IF e[2] = "rna" THEN "rna" ELSE "")
VController(ref) ==
  IF ref.ctrl \in BrokerIds(ref) THEN Ans(TRUE, BrokerOf(ref, ref.ctrl), "") ELSE Fail

\* does a real answer [ok, val, err] agree with the expected one
Agrees(got, exp) ==
  /\ got.ok = exp.ok
  /\ exp.ok => got.val = exp.val
  /\ CASE exp.err = "any" -> got.err # ""
       [] OTHER -> got.err = exp.err

\* error a refresh must report for one applied response: the error of some topic of a
\* reporting class if there is one, none otherwise (retry classes may end with none or the error)
ReportedOk(resp, result) ==
  LET rep == {e[2] : e \in {x \in Range(resp.topics) : ReportClass(x[2])}} IN
  IF rep = {} THEN result = "none" ELSE result \in rep
=============================================================================
