----------------------------- MODULE MocksOracle -----------------------------
(* Pure step functions and clause predicates for the sarama mocks (mocks/async_producer.go,
   mocks/sync_producer.go, mocks/consumer.go, mocks/mocks.go), property C20.

   The same operators are used by
     - spec/Mocks.tla       the producer-mock state machine   (Expect / Send / Batch / Close)
     - spec/MocksCons.tla   the consumer-mock state machine   (ExpectConsumePartition / Yield* /
                            ConsumePartition / read / Close orders / HighWaterMarkOffset)
     - spec/MocksTrace.tla  the total observer that replays what the REAL mocks did.

   Expectation kinds: S succeed, F fail(e), CS/CF passing checker + succeed/fail,
   XS/XF failing checker + succeed/fail.  The error scripted by expectation i is "e<i>",
   the error returned by its failing checker is "c<i>".                                  *)
EXTENDS Naturals, Integers, Sequences, FiniteSets, TLC

ExpKinds == {"S", "F", "CS", "CF", "XS", "XF"}
HasChecker(k) == k \in {"CS", "CF", "XS", "XF"}
CheckerFails(k) == k \in {"XS", "XF"}
Succeeds(k) == k \in {"S", "CS", "XS"}

Topics == {"ta", "tb", "tc"}
DefaultPartitions == 32           \* NewTopicConfig: every topic has 32 partitions until told otherwise
NoKey == "-"

\* int32(fnv1a(key)) of the two keys the harness uses (hash/fnv.New32a, what NewHashPartitioner uses)
KeyHash == [key2 |-> 944401402, z |-> -15969363]
\* partitioner.go hashPartitioner.Partition: int32(hash) % n, negated when negative (Go remainder truncates)
HashPart(key, n) == LET h == KeyHash[key] IN IF h < 0 THEN (-h) % n ELSE h % n

ToSet(s) == {s[k] : k \in DOMAIN s}
BagOf(s) == [x \in ToSet(s) |-> Cardinality({k \in DOMAIN s : s[k] = x})]
RECURSIVE SumSeq(_)
SumSeq(s) == IF s = <<>> THEN 0 ELSE Head(s) + SumSeq(Tail(s))
Count(s, P(_)) == Cardinality({k \in DOMAIN s : P(s[k])})
ErrId(prefix, id) == prefix \o ToString(id)

-----------------------------------------------------------------------------
(* ---------------- producer mocks ----------------
   cf = [mode: "async"|"sync", pk: "manual"|"hash"|"rr", np: [ta |-> a, tb |-> d], rets: BOOLEAN,
         quirks: BOOLEAN]   np.ta = count given to topic ta with SetPartitions when the mock is created
                            (0: no such call), np.tb = SetDefaultPartitions value (32: no such call)
   ps = [exps: Seq([kind, id]), nexp, last (offset counter), cur: per-topic round-robin cursors,
         ov: per-topic partition-count overrides of TopicConfig (0 = none), closed]
   m  = [mid, topic, key, mpart, bad]   bad = 1: the partitioner returns an error for this message                                                         *)

PInit0(npa) == [exps |-> <<>>, nexp |-> 0, last |-> 0, cur |-> [ta |-> 0, tb |-> 0, tc |-> 0],
                ov |-> [ta |-> npa, tb |-> 0, tc |-> 0], closed |-> FALSE]

\* TopicConfig.SetPartitions(map[string]int32{t: n}): adds / replaces the override of t, keeps the others
PSetParts(ps, t, n) == [ps EXCEPT !.ov[t] = n]
\* TopicConfig.partitions(t): the override if there is one, else the default
NP(cf, ps, t) == IF ps.ov[t] > 0 THEN ps.ov[t] ELSE cf.np.tb

PExpect(ps, kind) ==
  [ps EXCEPT !.exps = Append(@, [kind |-> kind, id |-> ps.nexp + 1]), !.nexp = @ + 1]

\* partitions the configured partitioner may choose for m over the configured partition count
AllowedParts(cf, ps, m) ==
  LET n == NP(cf, ps, m.topic) IN
  CASE cf.pk = "manual" -> {m.mpart}
    [] cf.pk = "hash" -> IF m.key = NoKey THEN 0..(n - 1) ELSE {HashPart(m.key, n)}
    [] cf.pk = "rr" -> {IF ps.cur[m.topic] >= n THEN 0 ELSE ps.cur[m.topic]}

Out(kind, err, off, part) == [kind |-> kind, err |-> err, off |-> off, part |-> part]
NoPart == -2      \* "no partition was chosen for this message" (partitioner error): nothing to compare

(* One message handed to the mock; p is the partition the partitioner chose (p \in AllowedParts).
   Result: new state, the expectation taken (0 = none), the outcomes the message receives (for the
   sync mock the single outcome is SendMessage's return value) and the ErrorReporter calls.
   cf.quirks = TRUE models the pinned code as it is:
     - async: a failing checker does not stop the scripted result (second outcome, offset counted)
     - sync : SendMessage returns partition 0 on success
   A message whose partitioning fails still uses up its expectation (the i-th message belongs to the
   i-th expectation): its single outcome is the partitioner's error "p<mid>", which is reported; the
   checker is not run, no offset is handed out.                                                 *)
PSend(cf, ps, m, p) ==
  IF ps.exps = <<>> THEN
    [ps |-> ps, took |-> 0, ekind |-> "-", rep |-> <<"noexp">>,
     outs |-> IF cf.mode = "sync" THEN <<Out("err", "noexp", -1, -1)>> ELSE <<>>]
  ELSE IF m.bad = 1 THEN
    [ps |-> [ps EXCEPT !.exps = Tail(@)], took |-> Head(ps.exps).id, ekind |-> Head(ps.exps).kind,
     rep |-> <<"partitioner">>, outs |-> <<Out("err", ErrId("p", m.mid), -1, NoPart)>>]
  ELSE
    LET e == Head(ps.exps)
        ps1 == [ps EXCEPT !.exps = Tail(@), !.cur[m.topic] = IF cf.pk = "rr" THEN p + 1 ELSE @]
        chk == IF CheckerFails(e.kind) THEN <<Out("err", ErrId("c", e.id), -1, IF cf.mode = "sync" THEN -1 ELSE p)>> ELSE <<>>
        stop == CheckerFails(e.kind) /\ ~(cf.quirks /\ cf.mode = "async")
        retp == IF cf.quirks /\ cf.mode = "sync" THEN 0 ELSE p
        res == IF Succeeds(e.kind)
               THEN IF cf.mode = "sync" \/ cf.rets THEN <<Out("succ", "-", ps.last + 1, IF cf.mode = "sync" THEN retp ELSE p)>> ELSE <<>>
               ELSE <<Out("err", ErrId("e", e.id), -1, IF cf.mode = "sync" THEN -1 ELSE p)>>
    IN [ps |-> IF ~stop /\ Succeeds(e.kind) THEN [ps1 EXCEPT !.last = @ + 1] ELSE ps1,
        took |-> e.id, ekind |-> e.kind,
        rep |-> IF CheckerFails(e.kind) THEN <<"checker">> ELSE <<>>,
        outs |-> IF stop THEN chk ELSE chk \o res]

\* Close / AsyncClose+wait: leftover expectations are reported once
PClose(ps) == [ps |-> [ps EXCEPT !.closed = TRUE], rep |-> IF ps.exps # <<>> THEN <<"leftover">> ELSE <<>>]

(* SyncProducer.SendMessages(msgs) as it is: with fewer expectations than messages nothing is
   consumed and "insufficient" is reported; otherwise Len(msgs) expectations are popped up front and
   the messages are processed in order until the first one that does not succeed.
   parts[i] is the partition chosen for the i-th message (only the processed ones matter).
   Result: per message 0 = not processed, else its offset / -1; the returned error id.   *)
RECURSIVE PBatchRun(_, _, _, _, _)
PBatchRun(cf, es, ms, ps_parts, acc) ==
  \* acc = [ps, offs (seq), err, rep, parts (seq of chosen partitions, -1 = not processed)]
  IF es = <<>> \/ acc.err # "-" THEN acc
  ELSE
    LET e == Head(es)
        m == Head(ms)
        al == AllowedParts(cf, acc.ps, m)
        p == IF Head(ps_parts) \in al THEN Head(ps_parts) ELSE CHOOSE q \in al : TRUE
        st1 == [acc.ps EXCEPT !.cur[m.topic] = IF cf.pk = "rr" THEN p + 1 ELSE @]
    IN IF m.bad = 1 THEN      \* partitioner error: reported and returned, the batch stops here
         [acc EXCEPT !.err = ErrId("p", m.mid), !.rep = Append(@, "partitioner"),
                     !.offs = Append(@, -1), !.parts = Append(@, NoPart)]
       ELSE IF CheckerFails(e.kind) THEN
         [acc EXCEPT !.ps = st1, !.err = ErrId("c", e.id), !.rep = Append(@, "checker"),
                     !.offs = Append(@, -1), !.parts = Append(@, p)]
       ELSE IF ~Succeeds(e.kind) THEN
         [acc EXCEPT !.ps = st1, !.err = ErrId("e", e.id), !.offs = Append(@, -1), !.parts = Append(@, p)]
       ELSE
         PBatchRun(cf, Tail(es), Tail(ms), Tail(ps_parts),
                   [acc EXCEPT !.ps = [st1 EXCEPT !.last = @ + 1], !.offs = Append(@, st1.last + 1), !.parts = Append(@, p)])

PBatch(cf, ps, ms, parts) ==
  LET n == Len(ms) IN
  IF Len(ps.exps) < n THEN
    [ps |-> ps, took |-> 0, offs |-> <<>>, parts |-> <<>>, err |-> "noexp", rep |-> <<"insufficient">>]
  ELSE
    LET es == SubSeq(ps.exps, 1, n)
        ps0 == [ps EXCEPT !.exps = SubSeq(@, n + 1, Len(@))]
        r == PBatchRun(cf, es, ms, parts, [ps |-> ps0, offs |-> <<>>, err |-> "-", rep |-> <<>>, parts |-> <<>>])
    IN [ps |-> r.ps, took |-> n, offs |-> r.offs, parts |-> r.parts, err |-> r.err, rep |-> r.rep]

-----------------------------------------------------------------------------
(* ---------------- consumer mock ----------------
   Partition consumers live in four slots: topic "tc" partitions 0, 1 = slots 0, 1 and topic "td"
   partitions 0, 1 = slots 2, 3; slot 9 = ("tc", partition 9) is never registered.
   pc = [reg, eoff (expected offset, AnyOff = any), consumed, feed / cap (feeder, see CFeed), yields / nerr (messages / errors
         yielded so far), mq (pending messages: Seq([mid, off])), eq (pending error ids), dm, de (drain expectations),
         closed (channels closed)]                                                       *)
AnyOff == -1000
CParts == {0, 1, 2, 3}
CNever == 9
CTopicOf(s) == IF s \in {2, 3} THEN "td" ELSE "tc"
CPartOf(s) == IF s = CNever THEN 9 ELSE s % 2
PC0 == [reg |-> FALSE, eoff |-> 0, consumed |-> FALSE, yields |-> 0, nerr |-> 0, mq |-> <<>>, eq |-> <<>>,
        dm |-> FALSE, de |-> FALSE, closed |-> FALSE, feed |-> 0, cap |-> 0]
CInit == [p \in CParts |-> PC0]

CRes(cs, ret, rep) == [cs |-> cs, ret |-> ret, rep |-> rep, val |-> <<>>, errs |-> <<>>]

CExpect(cs, p, off) ==
  CRes(IF cs[p].reg THEN cs ELSE [cs EXCEPT ![p] = [PC0 EXCEPT !.reg = TRUE, !.eoff = off]], "ok", <<>>)

\* YieldMessage: the message gets the next offset (first message: offset 1), FIFO per partition
CYieldMsg(cs, p, mid) ==
  LET off == cs[p].yields + 1 IN
  [CRes([cs EXCEPT ![p].yields = off, ![p].mq = Append(@, [mid |-> mid, off |-> off])], "ok", <<>>)
     EXCEPT !.val = <<mid, off, p>>]
CYieldErr(cs, p, eid) == CRes([cs EXCEPT ![p].eq = Append(@, eid), ![p].nerr = @ + 1], "ok", <<>>)
\* ids the harness gives to the k-th message / error yielded on partition p
MidOf(p, k) == 10 * p + k
CDrain(cs, p, which) ==
  CRes(IF which = "m" THEN [cs EXCEPT ![p].dm = TRUE] ELSE [cs EXCEPT ![p].de = TRUE], "ok", <<>>)

CConsume(cs, p, off) ==
  IF p \notin CParts \/ ~cs[p].reg THEN CRes(cs, "noexp", <<"unexpected_partition">>)
  ELSE IF cs[p].consumed THEN CRes(cs, "already", <<>>)
  ELSE CRes([cs EXCEPT ![p].consumed = TRUE], "ok",
            IF cs[p].eoff # AnyOff /\ cs[p].eoff # off THEN <<"unexpected_offset">> ELSE <<>>)

(* A feeder goroutine yields `feed` messages one after the other through a channel with `cap` buffer
   slots (Config.ChannelBufferSize).  YieldMessage counts the message (high-water mark) and stamps
   its offset BEFORE the channel send, so whenever the feeder is at rest - blocked in the send of a
   message or finished - the messages started are the received ones + cap buffered + 1 in flight
   (at most feed); `yields` counts the started ones, mq holds the started and not yet received.   *)
MidOf0(p, k) == 10 * p + k
CAdvance(pc, p) ==
  LET upto == IF pc.feed < pc.yields + (pc.cap + 1 - Len(pc.mq)) THEN pc.feed ELSE pc.yields + (pc.cap + 1 - Len(pc.mq))
  IN [pc EXCEPT !.yields = upto,
                !.mq = @ \o [k \in 1..(upto - pc.yields) |-> [mid |-> MidOf0(p, pc.yields + k), off |-> pc.yields + k]]]
CFeed(cs, p, n, cap) == CRes([cs EXCEPT ![p] = CAdvance([@ EXCEPT !.feed = n, !.cap = cap], p)], "ok", <<>>)

CReadMsg(cs, p) ==
  LET h == Head(cs[p].mq)
      pc1 == [cs[p] EXCEPT !.mq = Tail(@)]
  IN [CRes([cs EXCEPT ![p] = IF pc1.feed > 0 THEN CAdvance(pc1, p) ELSE pc1], "ok", <<>>) EXCEPT !.val = <<h.mid, h.off, p>>]
CReadErr(cs, p) ==
  [CRes([cs EXCEPT ![p].eq = Tail(@)], "ok", <<>>) EXCEPT !.errs = <<Head(cs[p].eq)>>]

CAsyncClose(cs, p) == CRes([cs EXCEPT ![p].closed = TRUE], "ok", <<>>)

\* reporter calls / state change of PartitionConsumer.Close on partition p
CCloseRep(pc) ==
  IF ~pc.consumed THEN <<"not_started">>
  ELSE (IF pc.de /\ pc.eq # <<>> THEN <<"errors_not_drained">> ELSE <<>>)
       \o (IF pc.dm /\ pc.mq # <<>> THEN <<"messages_not_drained">> ELSE <<>>)
CCloseSt(pc) == IF ~pc.consumed THEN pc ELSE [pc EXCEPT !.closed = TRUE, !.mq = <<>>, !.eq = <<>>]
CClosePC(cs, p) ==
  [CRes([cs EXCEPT ![p] = CCloseSt(@)], IF ~cs[p].consumed THEN "notstarted" ELSE "ok", CCloseRep(cs[p]))
     EXCEPT !.errs = IF cs[p].consumed THEN cs[p].eq ELSE <<>>]
\* Consumer.Close: closes every registered partition consumer (map order: reporter calls as a bag)
RECURSIVE CCloseAllRep(_, _)
CCloseAllRep(cs, s) == IF s \notin CParts THEN <<>>
                       ELSE (IF cs[s].reg THEN CCloseRep(cs[s]) ELSE <<>>) \o CCloseAllRep(cs, s + 1)
CCloseAll(cs) ==
  CRes([p \in CParts |-> IF cs[p].reg THEN CCloseSt(cs[p]) ELSE cs[p]], "ok", CCloseAllRep(cs, 0))

\* HighWaterMarkOffset of a registered partition: offset of the last yielded message + 1
CHwm(pc) == pc.yields + 1

(* topic metadata of the consumer mock: SetTopicMetadata(config v), Topics(), Partitions(topic).
   md = 0: no metadata set (Topics / Partitions are unexpected calls: reported, ErrOutOfBrokers).  *)
MetaTopics(v) == IF v = 1 THEN {"tc"} ELSE {"tc", "td"}
MetaParts(v, t) == IF v = 1 THEN <<0, 1>> ELSE IF t = "tc" THEN <<0>> ELSE <<0, 1, 2>>
CTopics(md) == IF md = 0 THEN [ret |-> "outofbrokers", tset |-> {}, rep |-> <<"no_metadata">>]
               ELSE [ret |-> "ok", tset |-> MetaTopics(md), rep |-> <<>>]
CPartitions(md, t) ==
  IF md = 0 THEN [ret |-> "outofbrokers", parts |-> <<>>, rep |-> <<"no_metadata">>]
  ELSE IF t \notin MetaTopics(md) THEN [ret |-> "unknowntopic", parts |-> <<>>, rep |-> <<>>]
  ELSE [ret |-> "ok", parts |-> MetaParts(md, t), rep |-> <<>>]
=============================================================================
