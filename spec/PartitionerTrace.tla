-------------------------- MODULE PartitionerTrace --------------------------
(* Role 3: judges what the REAL code did (harness/inpkg/partitioner_test.go) against the
   clauses of C17.  Total observer: never blocks, accumulates <<trace, index, clause>>.

   Family "part" - one trace = one partitioner instance built with a real constructor:
     reset{fam,ctor,abs,hashfn,fb}   call{kk,h,name,part,n,ret,err,xk,xv,mrc}
       kk: "nil" | "empty" "empty_s" "empty_n" (not nil, no bytes: ByteEncoder([]byte{}), StringEncoder(""),
           ByteEncoder(nil)) | "h" (bytes chosen so that the injected hash.Hash32 returns h) | "fnv";
       mrc: "true"/"false": what the instance answers to MessageRequiresConsistency (RequiresConsistency
           when it is not a DynamicConsistencyPartitioner) for this message, or "panic: ...";
       h: the int32 hash of the key bytes (injected, or hash/fnv computed by the harness);
       err: "" or what happened instead of a return (crash of the subprocess, panic, hang, error)
   Family "prod" - one trace = one topic of a real AsyncProducer talking to a MockBroker:
     reset{fam,np,leaderless,pk,static,dyn}  submit{id,keyed,ek,part,sc,xout,xtarget}
     offer{id,n,ret,perr} (the wrapped partitioner was called)  wire{id,part} (produce request
     at the broker)  outcome{id,kind,part,err,cls} (Successes()/Errors();
     cls: class of the error, "transport" = connection trouble between client and mock broker)
     leaders{leaderless} (the broker's metadata changed while the producer was idle)  done{msgs,note}
   Two instances of one constructor with interleaved calls (spec/PartitionerPair.tla) are family
   "part" traces as well: call events carry the instance in "inst", judged by the same clauses.   *)
EXTENDS PartitionerOps, TLC, Json

Trace == ndJsonDeserialize("trace.ndjson")

VARIABLES l, viol, cur, memo, rrh, pm, st, curL
vars == <<l, viol, cur, memo, rrh, pm, st, curL>>

E == Trace[l]
ToSet(s) == {s[k] : k \in DOMAIN s}
When(cond, c) == IF cond THEN {<<E.t, E.i, c>>} ELSE {}
At(i, cond, c) == IF cond THEN {<<E.t, i, c>>} ELSE {}

(* ------------------------------ family "part" ------------------------------ *)
IsHashC == cur.ctor \in {"hash", "refhash", "customhash", "custom"}
KeyedE == IsHashC /\ E.kk # "nil"
RRH1 == Append(rrh, [n |-> E.n, ret |-> E.ret])
RRWindowBad ==
  LET k == E.n  len == Len(RRH1) IN
    /\ len >= k
    /\ \A j \in (len - k + 1) .. len : RRH1[j].n = k
    /\ {RRH1[j].ret : j \in (len - k + 1) .. len} # 0 .. (k - 1)

CallClauses ==
  IF E.err # "" THEN When(TRUE, "in_range")       \* no partition index came back at all
  ELSE
       When(cur.ctor # "manual" /\ ~(E.ret >= 0 /\ E.ret < E.n), "in_range")
  \cup When(cur.ctor = "manual" /\ E.ret # E.part, "manual_returns_own")
  \cup When(KeyedE /\ cur.abs /\ E.ret # JavaPartition(E.h, E.n), "reference_matches_java")
  \cup When(KeyedE /\ ~cur.abs /\ E.ret # AbsMod(E.h, E.n), "legacy_abs_of_remainder")
  \cup When(KeyedE /\ \E p \in memo : p[1] = E.kk /\ p[2] = E.h /\ p[3] = E.name /\ p[4] = E.n /\ p[5] # E.ret,
            "equal_keys_equal_partitions")
  \cup When(cur.ctor = "roundrobin" /\ RRWindowBad, "roundrobin_cycles")

\* a message whose key the partitioner hashes requires consistency (else the producer would offer it the
\* writable partitions only and the same key would move with the leaders)
ConsistencyClause == When(KeyedE /\ E.mrc # "true", "hashed_message_requires_consistency")

TCall ==
  /\ E.ev = "call"
  /\ viol' = viol \cup CallClauses \cup ConsistencyClause
  /\ memo' = IF E.err = "" /\ KeyedE THEN memo \cup {<<E.kk, E.h, E.name, E.n, E.ret>>} ELSE memo
  /\ rrh' = IF E.err = "" THEN RRH1 ELSE rrh
  /\ st' = [st EXCEPT !.calls = @ + 1,
                      !.noreturn = @ + (IF E.err # "" THEN 1 ELSE 0),
                      !.drift = @ + (IF E.err = "" /\ E.xk = "exact" /\ E.ret # E.xv THEN 1 ELSE 0)]
  /\ UNCHANGED <<cur, pm, curL>>

(* ------------------------------ family "prod" ------------------------------ *)
NewMsg == [si |-> E.i, keyed |-> E.keyed, part |-> E.part, sc |-> E.sc, xout |-> E.xout, xtarget |-> E.xtarget,
           offers |-> <<>>, wires |-> <<>>, outs |-> <<>>, Ls |-> curL]
Known == E.id \in DOMAIN pm

\* the index chosen for message id is usable and designates this partition of the list it was offered from
Asked(m) == Len(m.offers) > 0
LastOffer(m) == m.offers[Len(m.offers)]
ValidChoice(m) == Asked(m) /\ LastOffer(m).perr = "" /\ LastOffer(m).ret >= 0 /\ LastOffer(m).ret < LastOffer(m).n
OfferedTo(m) == Offered(cur.np, m.Ls, cur.static, cur.dyn, m.keyed)
TargetOf(m) == Nth(OfferedTo(m), LastOffer(m).ret)
HasTarget(m) == ValidChoice(m) /\ LastOffer(m).n = Cardinality(OfferedTo(m))
\* connection trouble anywhere in the scenario may legitimately have opened a circuit breaker
ScenTransport == \E j \in DOMAIN pm : \E k \in DOMAIN pm[j].outs : pm[j].outs[k].cls = "transport"
\* partitionProducer.breaker (3 errors, 10 s): earlier messages routed to partition p that failed
FailedAt(p, id) == Cardinality({j \in DOMAIN pm : j < id /\ HasTarget(pm[j]) /\ TargetOf(pm[j]) = p
                                                  /\ \E k \in DOMAIN pm[j].outs : pm[j].outs[k].kind = "error"})

Judge(id) ==
  LET m == pm[id]
      Ls == m.Ls
      req == Requires(cur.static, cur.dyn, m.keyed)
      S == OfferedTo(m)
      n == Cardinality(S)
      offeredOk == \A k \in DOMAIN m.offers : m.offers[k].n = n
      asked == Asked(m)
      o == LastOffer(m)
      valid == ValidChoice(m)
      success == \E k \in DOMAIN m.outs : m.outs[k].kind = "success"
      failsUnsent == /\ \E k \in DOMAIN m.outs : m.outs[k].kind = "error"
                     /\ ~success
                     /\ m.wires = <<>>
      transport == \E k \in DOMAIN m.outs : m.outs[k].cls = "transport"
      target == Nth(S, o.ret)
      workerBreaker == FailedAt(target, id) >= 3
      wiresAt(p) == \A k \in DOMAIN m.wires : m.wires[k] = p
      succAt(p) == \A k \in DOMAIN m.outs : m.outs[k].kind = "success" => m.outs[k].part = p
  IN
       At(m.si, req /\ ~offeredOk, "keyed_consistent_offered_all")
  \cup At(m.si, ~req /\ ~offeredOk, "others_offered_writable_only")
  \cup At(m.si, n = 0 /\ (asked \/ ~failsUnsent), "no_partition_fails_unsent")
  \cup At(m.si, n > 0 /\ asked /\ ~valid /\ ~failsUnsent, "invalid_choice_fails_unsent")
  \cup At(m.si, ~asked /\ m.wires # <<>>, "sent_to_chosen_partition")
  \* partitions are available for this message (also: again, after the leaders came back): the partitioner
  \* is asked - no circuit breaker may be open unless real errors (connection trouble) occurred
  \cup At(m.si, n > 0 /\ ~asked /\ ~ScenTransport, "available_partitions_are_offered")
  \cup At(m.si, n > 0 /\ valid /\ o.n = n /\
                  ~(/\ wiresAt(target) /\ succAt(target)
                    /\ ((target \notin Ls /\ ~transport /\ ~ScenTransport /\ ~workerBreaker) => (m.wires # <<>> /\ success))),
          "sent_to_chosen_partition")

Drift(id) ==
  LET m == pm[id]
      kind == IF \E k \in DOMAIN m.outs : m.outs[k].kind = "success" THEN "success"
              ELSE IF m.outs # <<>> THEN "error" ELSE "none"
  IN IF (m.xout # "any" /\ kind # m.xout) \/ (kind = "success" /\ m.xtarget >= 0 /\ \E k \in DOMAIN m.outs : m.outs[k].part # m.xtarget)
     THEN 1 ELSE 0

TSubmit == /\ E.ev = "submit"
           /\ pm' = (E.id :> NewMsg) @@ pm
           /\ UNCHANGED <<viol, cur, memo, rrh, st, curL>>
TOffer == /\ E.ev = "offer"
          /\ pm' = IF Known THEN [pm EXCEPT ![E.id].offers = Append(@, [n |-> E.n, ret |-> E.ret, perr |-> E.perr])] ELSE pm
          /\ UNCHANGED <<viol, cur, memo, rrh, st, curL>>
TWire == /\ E.ev = "wire"
         /\ pm' = IF Known THEN [pm EXCEPT ![E.id].wires = Append(@, E.part)] ELSE pm
         /\ viol' = viol \cup When(~Known, "sent_to_chosen_partition")
         /\ UNCHANGED <<cur, memo, rrh, st, curL>>
TOutcome == /\ E.ev = "outcome"
            /\ pm' = IF Known THEN [pm EXCEPT ![E.id].outs = Append(@, [kind |-> E.kind, part |-> E.part, err |-> E.err, cls |-> E.cls])] ELSE pm
            /\ UNCHANGED <<viol, cur, memo, rrh, st, curL>>
TLeaders == /\ E.ev = "leaders"
            /\ curL' = ToSet(E.leaderless)
            /\ st' = [st EXCEPT !.flips = @ + 1]
            /\ UNCHANGED <<viol, cur, memo, rrh, pm>>
TDone == /\ E.ev = "done"
         /\ viol' = viol \cup UNION {Judge(id) : id \in DOMAIN pm}
         /\ st' = [st EXCEPT !.scen = @ + 1, !.msgs = @ + Cardinality(DOMAIN pm),
                             !.drift = @ + Cardinality({id \in DOMAIN pm : Drift(id) = 1})]
         /\ UNCHANGED <<cur, memo, rrh, pm, curL>>

(* ------------------------------ common ------------------------------ *)
NoMsgs == [x \in {} |-> 0]
Init == /\ l = 1 /\ viol = {} /\ cur = [fam |-> "-"] /\ memo = {} /\ rrh = <<>> /\ pm = NoMsgs /\ curL = {}
        /\ st = [calls |-> 0, noreturn |-> 0, drift |-> 0, scen |-> 0, msgs |-> 0, insts |-> 0, flips |-> 0]

TReset == /\ E.ev = "reset"
          /\ cur' = E /\ memo' = {} /\ rrh' = <<>> /\ pm' = NoMsgs
          /\ curL' = IF E.fam = "prod" THEN ToSet(E.leaderless) ELSE {}
          /\ st' = [st EXCEPT !.insts = @ + (IF E.fam = "part" THEN 1 ELSE 0)]
          /\ UNCHANGED viol
TEnd == /\ E.ev = "end"
        /\ PrintT(<<"VIOL", ToJson(viol)>>)
        /\ PrintT(<<"STATS", ToJson(st)>>)
        /\ UNCHANGED <<viol, cur, memo, rrh, pm, st, curL>>

Next == /\ l <= Len(Trace)
        /\ l' = l + 1
        /\ (TCall \/ TSubmit \/ TOffer \/ TWire \/ TOutcome \/ TLeaders \/ TDone \/ TReset \/ TEnd)
Spec == Init /\ [][Next]_vars
Accepted == TLCGet("stats").diameter - 1 = Len(Trace)
=============================================================================
